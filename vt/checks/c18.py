"""C18 - the dependency-GIR cache never serves stale or torn data.

Stateless schedule exploration (E3, vt/sched.py) of the REAL giscanner.cachestore.CacheStore
and the real call site Transformer._parse_include.  2-3 "processes" (threads under a
baton-passing scheduler) run over a virtual file system with a logical clock; the names
os / open / tempfile / shutil / glob / sys in giscanner.cachestore, `utils.get_user_cache_dir`
(the real function body, re-bound to the virtual os) and `parse` in giscanner.girparser are
rebound from outside - /repo is not edited.

Oracle (written from the property statement, evaluated on every call return and at
quiescence):
  R1  a load / _parse_include result is None (load only) or a COMPLETE parse equal to the
      parse of a source version that was current at some tick within [first step of the
      call, return of the call];
  R2  an entry whose mtime is older than every source version current during the call is
      never the origin of a returned value;
  R3  truncated / garbage entries give None, no exception escapes load, store,
      CacheStore() or _parse_include;
  R4  a process never gets an entry written by a process with a different scanner version;
  R5  at quiescence a fresh single-process scan returns the current source version.
Reference values come from reading the GIR text with ElementTree, not from GIRParser.
"""
import builtins
import hashlib
import pickle
import posixpath
import types
import xml.etree.ElementTree as ET

from vt.scan import fake  # noqa: F401  (installs the stub _giscanner, env pins)
from vt import sched
from vt.sched import VFS, Exec, Actor, Explorer, Crash, Abort
from vt.core import Part, pmap, rotate, HarnessBroken

import giscanner
from giscanner import cachestore, girparser, utils
from giscanner import transformer as gtransformer
from giscanner.girparser import GIRParser

LEVEL = 'model_checking'

# ---------------------------------------------------------------- binding ---
_REAL_ET_PARSE = girparser.parse


def _vparse(filename):
    ex = sched.CUR[0]
    if ex is None:
        return _REAL_ET_PARSE(filename)
    data = ex.vfs.op_slurp(filename)
    return ET.ElementTree(ET.fromstring(data))


class _UtilsNS(object):
    """`utils` as seen by cachestore: the real get_user_cache_dir code over the virtual os."""

    def __init__(self):
        g = {'os': sched.OS, '__builtins__': builtins, '__name__': 'giscanner.utils'}
        self.get_user_cache_dir = types.FunctionType(utils.get_user_cache_dir.__code__, g,
                                                     'get_user_cache_dir',
                                                     utils.get_user_cache_dir.__defaults__)

    def __getattr__(self, name):
        return getattr(utils, name)


def bind():
    used = [n for n in ('os', 'open', 'tempfile', 'shutil', 'glob', 'sys') if n == 'open' or hasattr(cachestore, n)]
    sched.install_into(cachestore, used)
    cachestore.utils = _UtilsNS()
    girparser.parse = _vparse
    for mod in (cachestore, gtransformer):
        for n, v in vars(mod).items():
            if type(v).__name__ in ('lock', 'RLock'):
                raise HarnessBroken('real lock %s.%s would deadlock under the scheduler' % (mod.__name__, n))


bind()

# ------------------------------------------------------------------ world ---
GIR = '''<?xml version="1.0"?>
<repository version="1.2" xmlns="http://www.gtk.org/introspection/core/1.0" xmlns:c="http://www.gtk.org/introspection/c/1.0" xmlns:glib="http://www.gtk.org/introspection/glib/1.0">
<namespace name="Dep" version="%(v)s.0" c:identifier-prefixes="Dep" c:symbol-prefixes="dep">
<record name="A%(v)s" c:type="DepA%(v)s"/>
<record name="M" c:type="DepM"/>
<record name="Z%(v)s" c:type="DepZ%(v)s"/>
</namespace></repository>'''

SRC = '/data/Dep-1.0.gir'
XDG = '/cache'
CACHE = '/cache/g-ir-scanner'
ENTRY = posixpath.join(CACHE, hashlib.sha1(SRC.encode('utf-8')).hexdigest())
VER = posixpath.join(CACHE, '.cache-version')
TOP = posixpath.dirname(giscanner.__file__)
ARGV0 = '/install/bin/g-ir-scanner'
# source kind 'symlink': SRC is a symbolic link into a store of builds
TARGETS = ['/store/build1/Dep-1.0.gir', '/store/build2/Dep-1.0.gir', '/store/build3/Dep-1.0.gir']
ALIASES = {SRC: 'src', ENTRY: 'entry', VER: 'ver', CACHE: 'cachedir',
           TARGETS[0]: 'target1', TARGETS[1]: 'target2', TARGETS[2]: 'target3'}
# The scanner installation as seen by a process: mtimes of giscanner/*.py and of sys.argv[0]
# (what the version stamp is documented to hash).  Distinct per file, so that "older than all",
# "between" and "newest" are meaningful for an upgrade of a single module.
MODULES = {'ast.py': posixpath.join(TOP, 'ast.py'), 'cachestore.py': posixpath.join(TOP, 'cachestore.py'),
           'g-ir-scanner': ARGV0}
INSTALLS = {
    'H1': {MODULES['ast.py']: 100.5, MODULES['cachestore.py']: 150.5, MODULES['g-ir-scanner']: 120.5},
    'H2': {MODULES['ast.py']: 200.5, MODULES['cachestore.py']: 250.5, MODULES['g-ir-scanner']: 220.5},
}
UPGRADE_MTIME = {'older-than-all': 50.25, 'between': 130.25, 'newest': 300.25}
VERSIONS = (1, 2, 3, 4)
NS = {'core': 'http://www.gtk.org/introspection/core/1.0', 'c': 'http://www.gtk.org/introspection/c/1.0'}


def gir_text(v):
    return (GIR % {'v': v}).encode('utf-8')


def ref_summary(v):
    """Independent reading of version v of the source: what a complete parse must contain."""
    root = ET.fromstring(gir_text(v))
    ns = root.find('{%s}namespace' % NS['core'])
    recs = []
    for r in ns.findall('{%s}record' % NS['core']):
        recs.append((r.attrib['name'], 'Record', r.attrib['{%s}type' % NS['c']]))
    return (ns.attrib['name'], ns.attrib['version'], tuple(sorted(recs)),
            tuple(ns.attrib['{%s}identifier-prefixes' % NS['c']].split(',')),
            tuple(ns.attrib['{%s}symbol-prefixes' % NS['c']].split(',')),
            tuple(sorted(r[2] for r in recs)))


REF = dict((v, ref_summary(v)) for v in VERSIONS)


def summarize(parser):
    if parser is None:
        return 'None'
    if not isinstance(parser, GIRParser):
        return ('not-a-parser', type(parser).__name__)
    try:
        ns = parser.get_namespace()
        if ns is None:
            return ('no-namespace',)
        return (ns.name, ns.version,
                tuple(sorted((k, type(n).__name__, getattr(n, 'ctype', None)) for k, n in ns.names.items())),
                tuple(ns.identifier_prefixes or ()), tuple(ns.symbol_prefixes or ()),
                tuple(sorted(ns.ctypes)))
    except Exception as e:
        return ('broken-parser', type(e).__name__)


def _parse_real(v):
    p = GIRParser(types_only=True)
    p.parse_tree(ET.ElementTree(ET.fromstring(gir_text(v))))
    return p


PICKLES = dict((v, pickle.dumps(_parse_real(v))) for v in VERSIONS)
_L = len(PICKLES[1])
if len(set(len(x) for x in PICKLES.values())) != 1:
    raise HarnessBroken('pickles of the source versions differ in length')
CHUNK = (_L + 1) // 2
_diff = [i for i in range(_L) if PICKLES[1][i] != PICKLES[2][i]]
if not (_diff and _diff[0] < CHUNK <= _diff[-1]):
    raise HarnessBroken('read chunk boundary does not separate the version-dependent bytes')

# truncation representatives: empty file, just the PROTO opcode, exactly after the FRAME header
# (a frame boundary), and mid-stream - they raise different exception classes in pickle.load
FRAME_HDR = 11
TRUNCATIONS = {'trunc0': 0, 'trunc2': 2, 'trunc-frame': FRAME_HDR, 'trunc-mid': CHUNK - 7}
if not (PICKLES[2][:2] == b'\x80\x04' and PICKLES[2][2:3] == b'\x95'):
    raise HarnessBroken('pickled entry does not start with PROTO 4 + FRAME')
ENTRY_STATES = ('absent', 'fresh', 'stale', 'trunc0', 'trunc2', 'trunc-frame', 'trunc-mid', 'garbage')
MOVES = ('rename', 'copy')

# name -> (actor kinds..., options)
SCENARIOS = {
    'load||store':          (('L', 'load'), ('S', 'store')),
    'load||store||store':   (('L', 'load'), ('S1', 'store'), ('S2', 'store')),
    'scan||scan':           (('A', 'scan'), ('B', 'scan')),
    'scan||modify':         (('A', 'scan'), ('M', 'modify')),
    'scan||modify(symlink-rewrite)': (('A', 'scan'), ('M', 'modify-rewrite')),
    'scan||modify(symlink-repoint)': (('A', 'scan'), ('M', 'modify-repoint')),
    'load||purge':          (('L', 'load'), ('P', 'purge')),
    'load||purge(nover)':   (('L', 'load'), ('P', 'purge')),
    'store||purge':         (('S', 'store'), ('P', 'purge')),
    'purge||purge':         (('P1', 'purge'), ('P2', 'purge')),
    'scan||scan||modify':   (('A', 'scan'), ('B', 'scan'), ('M', 'modify')),
    'store-crash;load':     (('S', 'store!'), ('L', 'load>S')),
    'store-crash||load':    (('S', 'store!'), ('L', 'load')),
    'sequential':           (),
}
SCN_ORDER = ['load||store', 'scan||scan', 'scan||modify', 'scan||modify(symlink-rewrite)',
             'scan||modify(symlink-repoint)', 'load||purge', 'load||purge(nover)', 'store||purge',
             'purge||purge', 'store-crash;load', 'store-crash||load', 'load||store||store', 'scan||scan||modify']

FIXES = {
    'load-validates-path-not-fd':
        'CacheStore.load: validate the OPEN descriptor, not the path (os.fstat(fd.fileno()).st_mtime '
        'instead of os.stat(store_filename)), so that the bytes unpickled are the bytes validated',
    'parse-then-store-window':
        'Transformer._parse_include/CacheStore.store: take the source mtime BEFORE parsing and stamp the '
        'entry with it (os.utime on the temporary file before the move) or skip the store when the source '
        'mtime changed; the entry must not look newer than a source it does not describe',
    'copy-move-overwrites-entry-in-place':
        'CacheStore.store: create the temporary file in the cache directory (mkstemp(dir=self._directory)) '
        'and os.replace() it, so that the entry is never rewritten in place by a cross-filesystem copy',
    'copy-moves-interleave-in-entry':
        'CacheStore.store: create the temporary file in the cache directory and os.replace() it; two '
        'cross-filesystem moves (copyfile into the same inode) interleave chunk-wise and leave a mixed entry '
        'that is newer than the source and is served from then on',
    'copy-move-raises-when-entry-removed':
        'CacheStore.store: create the temporary file in the cache directory and os.replace() it (no '
        'copy+copystat on the final path); or treat ENOENT from the move like EACCES',
    'purge-spares-listed-temp-file':
        'CacheStore._clean must remove every file it lists except the stamp, including the temporaries of '
        'store() calls in flight: a temporary written by the previous scanner version that survives the purge '
        'is renamed into place under the new stamp (the writer tolerates ENOENT on its final move)',
    'old-version-store-survives-purge':
        'record the scanner version inside each entry (or in its file name) and compare on load; a '
        'directory-wide stamp cannot cover entries renamed into place after the purge listed the directory',
}


# ---------------------------------------------------------------- monitor ---
class Monitor(object):
    def __init__(self, scn, entry, move):
        self.scn, self.entry, self.move = scn, entry, move
        self.src_hist = []            # [(tick, version)]
        self.calls = []               # finished calls
        self.open = {}                # actor -> current call
        self.violations = []
        self.ex = None

    def state_key(self):
        return (tuple(self.src_hist),
                tuple((c['actor'], c['kind'], c['t0'], c['t1'], c['summary'], c['exc']) for c in self.calls),
                tuple(sorted((a, c['kind'], self.actor(a).call_t0) for a, c in self.open.items())))

    def actor(self, name):
        for a in self.ex.actors:
            if a.name == name:
                return a
        return self.ex.solo_actor

    def begin(self, a, kind):
        a.callid += 1
        a.call_t0 = None
        self.open[a.name] = {'actor': a.name, 'kind': kind, 'ev0': len(self.ex.vfs.events), 'callid': a.callid,
                             'install': a.install}

    def end(self, a, result=None, exc=None):
        c = self.open.pop(a.name)
        clock = self.ex.vfs.clock
        c['t0'] = a.call_t0 if a.call_t0 is not None else clock
        c['t1'] = clock
        c['summary'] = summarize(result) if exc is None else None
        c['exc'] = None if exc is None else '%s: %s' % (type(exc).__name__, exc)
        c['events'] = [e for e in self.ex.vfs.events[c['ev0']:] if e[1] == a.name and e[2] == c['callid']]
        self.calls.append(c)
        judge(self, c)

    def current_versions(self, t0, t1):
        out = []
        for k, (tick, v) in enumerate(self.src_hist):
            nxt = self.src_hist[k + 1][0] if k + 1 < len(self.src_hist) else None
            if tick <= t1 and (nxt is None or nxt > t0):
                out.append((v, tick))
        return out


def judge(mon, c):
    """Evaluate R1-R5 on one finished call; append to mon.violations."""
    reasons = []
    kind = c['kind']
    if c['exc'] is not None:
        reasons.append('R3: %s raised %s' % (kind, c['exc']))
    elif kind in ('load', 'scan', 'qscan'):
        s = c['summary']
        cur = mon.current_versions(c['t0'], c['t1'])
        reads = [e for e in c['events'] if e[3] == 'read' and e[4] == ENTRY]
        parsed = [e for e in c['events'] if e[3] == 'read-file' and e[4] == SRC]
        from_cache = bool(reads) and not parsed and s != 'None'
        c['from_cache'] = from_cache
        if s == 'None':
            if kind != 'load':
                reasons.append('R1: %s returned None' % kind)
        else:
            vers = [v for v in VERSIONS if REF[v] == s]
            if not vers:
                reasons.append('R1: result is not a complete parse of any source version: %r' % (s,))
            else:
                c['version'] = vers[0]
                if vers[0] not in [v for v, _ in cur]:
                    reasons.append('R1: returned the parse of v%d, but during the call [tick %g..%g] the source '
                                   'was %s' % (vers[0], c['t0'], c['t1'],
                                               '/'.join('v%d (since tick %g)' % x for x in cur)))
            if kind == 'qscan' and vers and [vers[0]] != [mon.src_hist[-1][1]]:
                reasons.append('R5: a fresh scan at quiescence returned v%d, current is v%d'
                               % (vers[0], mon.src_hist[-1][1]))
            if from_cache:
                emt = reads[0][6][2]
                if cur and all(tick > emt for _, tick in cur):
                    reasons.append('R2: entry with mtime %g used although the source is newer (%s)'
                                   % (emt, '/'.join('v%d@%g' % x for x in cur)))
                tags = set(e[6][3] for e in reads)
                for t in sorted(tags, key=repr):
                    if t and t[0] == 'w' and t[2] != c['install']:
                        reasons.append('R4: process with scanner version %s got an entry written by %s (version %s)'
                                       % (c['install'], t[1], t[2]))
    if reasons:
        mech = classify(mon, c, reasons)
        mon.violations.append({'mechanism': mech, 'reasons': reasons, 'call': '%s.%s' % (c['actor'], kind),
                               't0': c['t0'], 't1': c['t1'], 'summary': c['summary'], 'exc': c['exc']})


def classify(mon, c, reasons):
    """Name the failure mechanism from the monitor log (not from the schedule)."""
    ev = c['events']
    allev = mon.ex.vfs.events
    if c['exc'] is not None:
        if any(e[3] == 'copystat' and e[5] is None for e in ev):
            return 'copy-move-raises-when-entry-removed'
        return 'exception-escapes-%s' % c['kind'].replace('qscan', 'scan')
    if any(r.startswith('R4') for r in reasons):
        reads = [e for e in ev if e[3] == 'read' and e[4] == ENTRY]
        ino = reads[0][5]
        placed = [k for k, e in enumerate(allev) if e[5] == ino and e[4] == ENTRY and e[3] in ('rename', 'copy-open')]
        # a purge on behalf of the reader's scanner version did happen, and the entry arrived after it
        inst = dict((k['actor'], k['install']) for k in mon.calls + list(mon.open.values()) + [c])
        listed = [k for k, e in enumerate(allev) if e[3] == 'listdir' and e[4] == CACHE
                  and inst.get(e[1]) == c['install']]
        if placed and listed and placed[-1] > listed[0]:
            # schedule shape: was the writer's temporary already in the directory when the purge listed
            # it (the purge saw the file and must have removed it), or was it created only afterwards
            # (the purge could not see it - the listed finding on the unchanged tree)?
            purge = max(k for k in listed if k < placed[-1])
            born = [k for k, e in enumerate(allev) if e[5] == ino and e[3] == 'mkstemp']
            if born and born[0] < purge and posixpath.basename(allev[born[0]][4]) in (allev[purge][6] or ()):
                tmp_path, purger = allev[born[0]][4], allev[purge][1]
                # ... and the purging process never even tried to remove it (an attempt that came too late,
                # after the writer's rename, is the listed listdir/rename race, not this)
                if not any(e[3] == 'unlink' and e[4] == tmp_path and e[1] == purger for e in allev[purge:]):
                    return 'purge-spares-listed-temp-file'
            return 'old-version-store-survives-purge'
        return 'version-change-does-not-discard-entry'
    if any(r.startswith('R1: result is not') for r in reasons):
        reads = [e for e in ev if e[3] == 'read' and e[4] == ENTRY]
        if reads:
            ino = reads[0][5]
            lo = allev.index(reads[0])
            hi = allev.index(reads[-1])
            others = [e for e in allev[lo:hi] if e[5] == ino and e[1] != c['actor']]
            if any(e[3] in ('copy-open', 'copy-chunk') for e in others):
                return 'copy-move-overwrites-entry-in-place'
            if any(e[3] in ('write', 'open') for e in others):
                return 'entry-written-in-place'
            before = [e for e in allev[:lo] if e[5] == ino]
            if len(set(e[1] for e in before if e[3] in ('copy-open', 'copy-chunk'))) > 1:
                return 'copy-moves-interleave-in-entry'
            if len(set(e[1] for e in before if e[3] in ('open', 'write'))) > 1:
                return 'stores-interleave-in-entry'
            return 'torn-or-foreign-entry-returned'
        return 'incomplete-parse-returned'
    if any(r.startswith('R1: returned') or r.startswith('R2') or r.startswith('R5') for r in reasons):
        if not c.get('from_cache'):
            return 'own-parse-not-current'
        if any(e[3] == 'lstat' and e[4] == SRC for e in ev) and not any(e[3] == 'stat' and e[4] == SRC for e in ev):
            return 'source-symlink-not-followed'
        opened = [e for e in ev if e[3] == 'open' and e[4] == ENTRY]
        stated = [e for e in ev if e[3] == 'stat' and e[4] == ENTRY]
        reads = [e for e in ev if e[3] == 'read' and e[4] == ENTRY]
        if opened and stated and stated[-1][5] is not None and stated[-1][5] != opened[-1][5]:
            return 'load-validates-path-not-fd'
        ino = reads[0][5]
        lo = allev.index(opened[-1]) if opened else 0
        hi = allev.index(reads[-1])
        others = [e for e in allev[lo:hi] if e[5] == ino and e[1] != c['actor']]
        if any(e[3] in ('copy-open', 'copy-chunk', 'copystat') for e in others):
            return 'copy-move-overwrites-entry-in-place'
        if any(e[3] in ('write', 'open', 'utime') for e in others):
            return 'entry-written-in-place'
        emt = reads[0][6][2]
        srcst = [e for e in ev if e[3] == 'stat' and e[4] == SRC]
        if srcst and srcst[-1][6] is not None and emt < srcst[-1][6]:
            return 'entry-older-than-source-accepted'
        v = c.get('version')
        repl = [tick for tick, vv in mon.src_hist if v is not None and vv > v]
        if repl and emt >= repl[0]:
            return 'parse-then-store-window'
        return 'stale-entry-returned'
    return 'unclassified'


# --------------------------------------------------------------- scenario ---
def _call(mon, a, kind, fn):
    mon.begin(a, kind)
    try:
        r = fn()
    except (Crash, Abort):
        raise
    except BaseException as e:
        mon.end(a, exc=e)
        return None
    mon.end(a, result=r)
    return r


def modify_source(vfs, mon, op):
    """One modification of the source: 'replace' (plain file replaced atomically), 'rewrite' (the
    file a symlinked source points to is regenerated; the link itself is untouched) or 'repoint' (the
    link is switched to a file written at that moment).  One step; the new version is current from it."""
    v = mon.src_hist[-1][1] + 1
    if op == 'replace':
        i = vfs.op_replace(SRC, gir_text(v), ('src', v))
    elif op == 'rewrite':
        i = vfs.op_replace(vfs.resolve(SRC), gir_text(v), ('src', v))
    elif op == 'repoint':
        free = [t for t in TARGETS if t not in vfs.files]
        i = vfs.op_repoint(SRC, free[0], gir_text(v), ('src', v))
    else:
        raise HarnessBroken('unknown modification %r' % op)
    mon.src_hist.append((i.mtime, v))


def make_exec(scn, entry, move, srckind=None):
    if srckind is None and '(symlink-' in scn:
        srckind = 'symlink'
    vfs = VFS(mounts=[('/tmp', 1)] if move == 'copy' else [], read_chunk=CHUNK, aliases=ALIASES)
    vfs.environ = {'XDG_CACHE_HOME': XDG, 'HOME': '/home/u', '_ARGV0': ARGV0}
    vfs.install_files = INSTALLS
    vfs.dirs.update(['/tmp', '/data', XDG, CACHE, '/home', '/home/u'])
    vfs.tagger = lambda actor, path: ('w', actor.name, actor.install)
    mon = Monitor(scn, entry, move)
    ex = Exec(vfs, mon)
    mon.ex = ex
    sched.CUR[0] = ex
    # history (seconds): v1 installed at 10.375; an entry for it written at 20.125; v2 replaces
    # the source at 20.625 - in the same whole second as that (now stale) entry; a fresh
    # entry is written at 20.875
    if srckind == 'symlink':
        # the link was made when v1 was installed; v1 -> v2 regenerated its target in place
        vfs.mkfile(TARGETS[0], gir_text(2), 20.625, ('src', 2))
        vfs.mklink(SRC, TARGETS[0], 10.375)
    else:
        vfs.mkfile(SRC, gir_text(2), 20.625, ('src', 2))
    mon.src_hist = [(10.375, 1), (20.625, 2)]
    init = ('w', 'init', 'H1')
    if entry == 'fresh':
        vfs.mkfile(ENTRY, PICKLES[2], 20.875, init)
    elif entry == 'stale':
        vfs.mkfile(ENTRY, PICKLES[1], 20.125, init)
    elif isinstance(entry, bytes):
        vfs.mkfile(ENTRY, entry, 20.875, init)
    elif entry in TRUNCATIONS:
        vfs.mkfile(ENTRY, PICKLES[2][:TRUNCATIONS[entry]], 20.875, init)
    elif entry == 'garbage':
        vfs.mkfile(ENTRY, b'\x00not a pickle\xff' * 20, 20.875, init)
    vfs.clock = 30.125
    ex.solo('setup', 'H1')
    vfs.mkfile(VER, cachestore._get_versionhash().encode('ascii'), 5.375, init)
    vfs.clock = 40.125
    data2 = _parse_real(2)

    def mk(name, kind):
        crash = kind.endswith('!')
        after = ()
        if '>' in kind:
            kind, dep = kind.split('>')
            after = (dep,)
        kind = kind.rstrip('!')
        if kind == 'load':
            cs = cachestore.CacheStore()
            fn = lambda ex_, a: _call(mon, a, 'load', lambda: cs.load(SRC))
        elif kind == 'store':
            cs = cachestore.CacheStore()
            fn = lambda ex_, a: _call(mon, a, 'store', lambda: cs.store(SRC, data2))
        elif kind == 'scan':
            tr = gtransformer.Transformer(None)
            fn = lambda ex_, a: _call(mon, a, 'scan', lambda: tr._parse_include(SRC))
        elif kind in ('modify', 'modify-rewrite', 'modify-repoint'):
            op = {'modify': 'replace', 'modify-rewrite': 'rewrite', 'modify-repoint': 'repoint'}[kind]
            fn = lambda ex_, a: modify_source(vfs, mon, op)
        elif kind == 'purge':
            def fn(ex_, a):
                box = []
                _call(mon, a, 'construct', lambda: box.append(cachestore.CacheStore()))
                if box:
                    _call(mon, a, 'load', lambda: box[0].load(SRC))
        else:
            raise HarnessBroken('unknown actor kind %r' % kind)
        return Actor(name, fn, install='H2' if kind == 'purge' else 'H1', crashable=crash, after=after)

    for name, kind in SCENARIOS[scn]:
        ex.add(mk(name, kind))
    if scn == 'load||purge(nover)':
        del vfs.files[VER]            # the stamp got lost after the H1 processes had started
    vfs.events = []
    ex.setup_clock = vfs.clock
    return ex


def quiesce(ex):
    """R5: a fresh single process (newest scanner version) scans after everything stopped."""
    mon = ex.monitor
    sched.CUR[0] = ex
    inst = 'H2' if any(a.install == 'H2' for a in ex.actors) else 'H1'
    q = ex.solo('Q', inst)

    def scan():
        return gtransformer.Transformer(None)._parse_include(SRC)
    _call(mon, q, 'qscan', scan)


def finish(ex):
    """Called on every complete execution: harness sanity + quiescence oracle."""
    for a in ex.actors:
        if a.error is not None:
            raise HarnessBroken('actor %s leaked %r' % (a.name, a.error))
    if ex.monitor.open:
        for name in list(ex.monitor.open):
            a = ex.monitor.actor(name)
            if a.status != 'crashed':
                raise HarnessBroken('call of %s never returned' % name)
            ex.monitor.open.pop(name)
    quiesce(ex)
    return ex.monitor.violations


def results_of(ex):
    return tuple((c['actor'], c['kind'], 'EXC' if c['exc'] else
                  ('None' if c['summary'] == 'None' else 'v%s' % c.get('version', '?'))) for c in ex.monitor.calls)


def end_state(ex):
    snap = ex.vfs.snapshot()
    return (tuple(sorted((ex.vfs.alias(p), d, m) for p, (d, m, _) in snap.items())), results_of(ex),
            tuple(a.status for a in ex.actors))


def render(schedule):
    return ' . '.join('%s:%s' % (t, l) for t, l in schedule)


# ------------------------------------------------------------ exploration ---
def bounds_for(tier, scn):
    n = len(SCENARIOS[scn])
    if tier == 'thorough':
        # one level beyond the planned 3 / 2: measured 195 k executions, < 3 min on a loaded machine
        return [0, 1, 2, 3, 4] if n == 2 else [0, 1, 2, 3]
    return [0, 1, 2] if n == 2 else [0, 1]


def explore_unit(part, tier, scn, entry, move, bounds, roots=None):
    crash = 1 if any(k.endswith('!') for _, k in SCENARIOS[scn]) else 0
    states = set()
    best = {}
    outcomes = set()
    last_schedule = [None]

    def factory():
        return make_exec(scn, entry, move)

    def on_complete(ex, explorer):
        viols = finish(ex)
        explorer.end_states.add(hash(end_state(ex)))
        res = results_of(ex)
        outcomes.add((scn, entry, move, res))
        if any(r[2].startswith('v') for r in res):
            part.nontrivial('%s/%s/%s/%r' % (scn, entry, move, res))
        last_schedule[0] = ex.schedule()
        # "returns nothing" is always allowed for load: whether a usable entry is hit is UNSPECIFIED
        part.add(unspecified=sum(1 for r in res if r[1] == 'load' and r[2] == 'None'))
        if len(part.samples) < 2 and ex.preemptions == explorer.bound:
            part.sample({'scenario': scn, 'entry': entry, 'move': move, 'bound': explorer.bound,
                         'schedule': render(ex.schedule()), 'results': [list(r) for r in res]})
        for v in viols:
            # the source kind (plain file / symlink) is a parameter like entry state and move kind, not part of the key
            key = '%s@%s' % (v['mechanism'], scn.split('(symlink-')[0])
            cand = (ex.preemptions, ex.crashes, len(ex.oplog))
            if key not in best or cand < best[key][0]:
                best[key] = (cand, v, ex.schedule(), res)

    for b in bounds:
        e = Explorer(factory, b, crash, on_complete, use_cache=True)
        e.states = states
        e.run()
        if b == 1 and (tier == 'thorough' or entry == 'stale'):
            # harness self-check: the state cache must not change what is reachable
            e2 = Explorer(factory, b, crash, lambda ex, explorer: (finish(ex), explorer.end_states.add(hash(end_state(ex)))),
                          use_cache=False)
            e2.run()
            if e2.end_states != e.end_states:
                raise HarnessBroken('state cache changed the reachable end states of %s/%s/%s' % (scn, entry, move))
            part.add(evaluations=e2.executions, cache_crosschecks=1)
        tag = 'bound%d.' % b
        part.add(**{tag + 'executions': e.executions, tag + 'pruned': e.pruned, tag + 'end_states': len(e.end_states),
                    tag + 'sched_points': e.sched_points, tag + 'steps': e.steps_new})
        part.add(evaluations=e.executions + e.pruned, transitions=e.steps_new,
                 traces_validated_against_impl=e.executions, steps_with_replay=e.steps_total)
    part.add(states=len(states))
    for o in outcomes:
        part.outcome(o)
    # replay determinism: the last recorded schedule, twice
    if last_schedule[0] is not None:
        logs = []
        for _ in range(2):
            ex = sched.replay(factory, last_schedule[0], crash)
            finish(ex)
            logs.append((ex.obs_log(), results_of(ex), end_state(ex)))
        if logs[0] != logs[1]:
            raise HarnessBroken('replaying one schedule twice gave different observation logs (%s/%s/%s)'
                                % (scn, entry, move))
        part.add(evaluations=2, replays_compared=1)
    for key, (cand, v, schedule, res) in sorted(best.items()):
        mech = v['mechanism']
        desc = ('%s in %s, entry %s, move %s, %d preemption(s)%s: %s; schedule: %s; fix: %s'
                % (v['call'], scn, entry, move, cand[0], ', 1 kill' if cand[1] else '', ' | '.join(v['reasons']),
                   render(schedule), FIXES.get(mech, 'n/a')))
        part.violation(key, desc, {'scenario': scn, 'entry': entry, 'move': move, 'schedule': schedule,
                                   'mechanism': mech, 'reasons': v['reasons'], 'rank': list(cand),
                                   'results': [list(r) for r in res]})


# ---------------------------------------------------- sequential family ---
SEQ = 'broken-entry(sequential)'
# A well-formed pickle of an object that is not a parser is neither "unreadable" nor "truncated";
# the statement does not fix what load does with it.  On the current tree load returns the object and
# _parse_include then raises AttributeError (and keeps doing so: the entry is never discarded).
# Set to True to demand None / a fresh parse for it as well.
FOREIGN_OBJECT_IS_MUST = False


def _big_pickle():
    """A real pickled parser large enough to span several pickle frames."""
    recs = ''.join('<record name="R%04d" c:type="DepR%04d"/>\n' % (i, i) for i in range(900))
    text = (GIR % {'v': 2}).replace('<record name="M" c:type="DepM"/>\n', recs)
    p = GIRParser(types_only=True)
    p.parse_tree(ET.ElementTree(ET.fromstring(text.encode('utf-8'))))
    return pickle.dumps(p)


def _frame_cuts(data):
    import pickletools
    cuts = set()
    for op, arg, pos in pickletools.genops(data):
        if op.name == 'FRAME':
            cuts.update((pos, pos + 1, pos + 9, pos + 10))       # frame boundary, inside/after its header
    return sorted(c for c in cuts if 0 <= c < len(data))


def garbage_classes():
    P = PICKLES[2]
    return [
        ('random-bytes', b''.join(hashlib.sha256(bytes([i])).digest() for i in range(8))),
        ('nul-bytes', b'\0' * 64),
        ('text', b'hello world\n' * 10),
        ('pickle-header+junk', P[:FRAME_HDR] + b'\xff\x00junk' * 30),
        ('frame-longer-than-file', b'\x80\x04\x95\xff\xff\xff\xff\xff\xff\xff\x7fK\x01.'),
        ('class-in-missing-module', b'cgiscanner.nonexistent_module\nFoo\n.'),
        ('missing-class', b'cgiscanner.ast\nNoSuchClass\n.'),
        ('bad-int-literal', b'I12abc\n.'),
        ('bad-utf8-string', b'\x8c\x01\xff.'),
        ('reduce-on-int', b'K\x01K\x02\x85R.'),
        ('setitem-on-int', b'K\x01K\x02K\x03s.'),
        ('bad-memo-ref', b'h\x00.'),
        ('stack-underflow', b'.'),
        ('entry+trailing-junk-cut', P[:-1] + b'\xff'),
        ('two-entries-concatenated-cut', P + P[:40]),
    ]


def seq_cases(tier):
    """Every prefix of a real entry, every cut around a frame boundary of a multi-frame
    entry, and the garbage classes."""
    cases = [('prefix', n) for n in range(len(PICKLES[2]) + 1)]
    cases += [('bigcut', n) for n in _frame_cuts(_BIG[0])]
    cases += [('garbage', name) for name, _ in garbage_classes()]
    cases += [('foreign-object', 0)]
    return cases


_BIG = [_big_pickle()]
if len(_frame_cuts(_BIG[0])) < 8:
    raise HarnessBroken('the large entry does not span several pickle frames')


def seq_content(case):
    kind, x = case
    if kind == 'prefix':
        return PICKLES[2][:x]
    if kind == 'bigcut':
        return _BIG[0][:x]
    if kind == 'garbage':
        return dict(garbage_classes())[x]
    if kind == 'foreign-object':
        return pickle.dumps({'not': ['a', 'parser']})
    raise HarnessBroken('unknown sequential case %r' % (case,))


def seq_run(case, call):
    """One process, no scheduling: entry = content (newer than the source), then load or
    _parse_include on the real code, then the quiescence scan.  Returns the Exec."""
    ex = make_exec('sequential', seq_content(case), 'rename')
    mon = ex.monitor
    a = ex.solo('L' if call == 'load' else 'A', 'H1')
    if call == 'load':
        cs = cachestore.CacheStore()
        _call(mon, a, 'load', lambda: cs.load(SRC))
    else:
        tr = gtransformer.Transformer(None)
        _call(mon, a, 'scan', lambda: tr._parse_include(SRC))
    ex.seq_steps = a.nsteps
    quiesce(ex)
    return ex


def _work_seq(unit):
    _, cases = unit
    part = Part()
    best = {}
    for case in cases:
        case = tuple(case)
        complete = case == ('prefix', len(PICKLES[2]))
        for call in ('load', 'scan'):
            ex = seq_run(case, call)
            res = results_of(ex)
            part.add(evaluations=1, traces_validated_against_impl=1, transitions=ex.seq_steps,
                     **{'sequential.executions': 1})
            part.outcome(('seq', case[0], complete, res))
            if case[0] == 'foreign-object' and not FOREIGN_OBJECT_IS_MUST:
                # a well-formed pickle of something that is not a parser is neither unreadable nor
                # truncated: the statement does not say what load must do with it
                part.add(unspecified=1)
                continue
            part.nontrivial('seq/%s/%s/%s' % (case[0], case[1], call))
            for v in ex.monitor.violations:
                key = '%s@%s' % (v['mechanism'], SEQ)
                rank = (0, 0, case[1] if isinstance(case[1], int) else 0)
                if key not in best or rank < best[key][0]:
                    best[key] = (rank, v, case, call, res)
        part.add(states=1)
    if cases:
        part.sample({'scenario': SEQ, 'case': list(cases[0]), 'calls': ['load', '_parse_include']})
    for key, (rank, v, case, call, res) in sorted(best.items()):
        desc = ('%s with the entry = %s %r (%d bytes, newer than the source), one process, no concurrency: %s'
                % (v['call'], case[0], case[1], len(seq_content(case)), ' | '.join(v['reasons'])))
        part.violation(key, desc, {'scenario': 'sequential', 'case': list(case), 'call': call,
                                   'mechanism': v['mechanism'], 'reasons': v['reasons'], 'rank': list(rank),
                                   'results': [list(r) for r in res]})
    return part.result()


# ------------------------------------------------- scanner-upgrade family ---
UPG = 'scanner-upgrade(sequential)'


def upgrade_histories():
    """Histories of 1 and 2 upgrade operations upgrade(module, new mtime class); a scanner process
    of the then-current installation runs after every operation."""
    ops = [(m, c) for m in sorted(MODULES) for c in sorted(UPGRADE_MTIME)]
    hist = [(o,) for o in ops]
    hist += [(a, b) for a in ops for b in ops]
    return hist


def _apply_upgrade(files, op, step):
    m, c = op
    new = dict(files)
    # a second operation of the same class on the same file must still change its mtime
    new[MODULES[m]] = UPGRADE_MTIME[c] + 0.125 * step
    return new


def upg_run(history):
    """One process at a time, harness-owned clock.  S0 (installation H1) scans and stores; then for
    every upgrade operation a process of the upgraded installation constructs CacheStore(), loads,
    and scans.  R4 applies to every call: no entry written under another installation is returned."""
    ex = make_exec('sequential', 'absent', 'rename')
    mon = ex.monitor
    installs = dict(INSTALLS)
    ex.vfs.install_files = installs
    a = ex.solo('S0', 'H1')
    tr = gtransformer.Transformer(None)
    _call(mon, a, 'scan', lambda: tr._parse_include(SRC))
    files = INSTALLS['H1']
    steps = a.nsteps
    changed = []
    for k, op in enumerate(history):
        new = _apply_upgrade(files, op, k)
        changed.append(new != files)
        files = new
        name = 'U%d' % (k + 1)
        installs[name] = files
        a = ex.solo('P%d' % (k + 1), name)
        box = []
        _call(mon, a, 'construct', lambda: box.append(cachestore.CacheStore()))
        if box:
            _call(mon, a, 'load', lambda: box[0].load(SRC))
        _call(mon, a, 'scan', lambda: gtransformer.Transformer(None)._parse_include(SRC))
        steps += a.nsteps
    ex.seq_steps = steps
    if not all(changed):
        raise HarnessBroken('upgrade %r did not change any mtime' % (history,))
    return ex


def _work_upg(unit):
    _, hists = unit
    part = Part()
    best = {}
    for h in hists:
        h = tuple(tuple(o) for o in h)
        ex = upg_run(h)
        res = results_of(ex)
        part.add(evaluations=1, traces_validated_against_impl=1, transitions=ex.seq_steps, states=1,
                 **{'upgrade.histories': 1})
        part.outcome(('upg', len(h), res))
        part.nontrivial('upg/%r' % (h,))
        for v in ex.monitor.violations:
            key = '%s@%s' % (v['mechanism'], UPG)
            rank = (len(h), 0, 0)
            if key not in best or rank < best[key][0]:
                best[key] = (rank, v, h, res)
    if hists:
        part.sample({'scenario': UPG, 'history': [list(o) for o in hists[0]],
                     'processes': 'S0(H1): scan+store; after each upgrade: CacheStore(), load, scan'})
    for key, (rank, v, h, res) in sorted(best.items()):
        desc = ('%s after %s (installation H1 = %s): %s' % (
            v['call'], ' ; '.join('upgrade(%s, new mtime %s)' % o for o in h),
            ', '.join('%s@%g' % (m, INSTALLS['H1'][MODULES[m]]) for m in sorted(MODULES)), ' | '.join(v['reasons'])))
        part.violation(key, desc, {'scenario': 'upgrade', 'history': [list(o) for o in h], 'mechanism': v['mechanism'],
                                   'reasons': v['reasons'], 'rank': list(rank), 'results': [list(r) for r in res]})
    return part.result()


def replay_upgrade(ctx, case):
    h = tuple(tuple(o) for o in case['history'])
    ex = upg_run(h)
    print('installation H1: %s' % ', '.join('%s@%g' % (m, INSTALLS['H1'][MODULES[m]]) for m in sorted(MODULES)))
    print('history: S0(H1) scans and stores; %s; after each upgrade a new process constructs CacheStore(), loads, scans'
          % ' ; '.join('upgrade(%s, new mtime %s = %g)' % (o[0], o[1], UPGRADE_MTIME[o[1]] + 0.125 * k)
                       for k, o in enumerate(h)))
    for k in ex.monitor.calls:
        print('call %s.%s (installation %s) -> %s' % (k['actor'], k['kind'], k['install'], k['exc'] or (
            'None' if k['summary'] == 'None' else 'parse of v%s%s' % (k.get('version', '?'),
                                                                     ' from the cache' if k.get('from_cache') else ''))))
    for v in ex.monitor.violations:
        print('VIOLATED by %s [%s]: %s' % (v['call'], v['mechanism'], ' | '.join(v['reasons'])))
    return not ex.monitor.violations


# ------------------------------------------------ symlinked-source family ---
LNK = 'symlinked-source(sequential)'


def link_histories():
    ops = ('rewrite', 'repoint')
    hist = [(o,) for o in ops] + [(a, b) for a in ops for b in ops]
    return [(e, h) for e in ('absent', 'fresh', 'stale') for h in hist]


def lnk_run(case):
    """One process at a time.  The source is a symlink.  S0 scans (and stores); after every
    modification of the source a new process loads, then scans.  R1/R2/R5 as everywhere."""
    entry, history = case
    ex = make_exec('sequential', entry, 'rename', srckind='symlink')
    mon = ex.monitor
    a = ex.solo('S0', 'H1')
    _call(mon, a, 'scan', lambda: gtransformer.Transformer(None)._parse_include(SRC))
    steps = a.nsteps
    for k, op in enumerate(history):
        m = ex.solo('M%d' % (k + 1), 'H1')
        modify_source(ex.vfs, mon, op)
        a = ex.solo('P%d' % (k + 1), 'H1')
        cs = cachestore.CacheStore()
        _call(mon, a, 'load', lambda: cs.load(SRC))
        _call(mon, a, 'scan', lambda: gtransformer.Transformer(None)._parse_include(SRC))
        steps += a.nsteps + m.nsteps
    ex.seq_steps = steps
    return ex


def _work_lnk(unit):
    _, cases = unit
    part = Part()
    best = {}
    for case in cases:
        case = (case[0], tuple(case[1]))
        ex = lnk_run(case)
        res = results_of(ex)
        part.add(evaluations=1, traces_validated_against_impl=1, transitions=ex.seq_steps, states=1,
                 **{'symlink.histories': 1})
        part.outcome(('lnk', case[0], len(case[1]), res))
        part.nontrivial('lnk/%r' % (case,))
        for v in ex.monitor.violations:
            key = '%s@%s' % (v['mechanism'], LNK)
            rank = (len(case[1]), 0, 0)
            if key not in best or rank < best[key][0]:
                best[key] = (rank, v, case, res)
    if cases:
        part.sample({'scenario': LNK, 'entry': cases[0][0], 'history': list(cases[0][1]),
                     'processes': 'S0: scan+store; after each modification: load, scan'})
    for key, (rank, v, case, res) in sorted(best.items()):
        desc = ('%s with the source reached through a symbolic link, entry initially %s, after %s: %s'
                % (v['call'], case[0], ' ; '.join(case[1]), ' | '.join(v['reasons'])))
        part.violation(key, desc, {'scenario': 'symlink', 'entry': case[0], 'history': list(case[1]),
                                   'mechanism': v['mechanism'], 'reasons': v['reasons'], 'rank': list(rank),
                                   'results': [list(r) for r in res]})
    return part.result()


def replay_symlink(ctx, case):
    ex = lnk_run((case['entry'], tuple(case['history'])))
    print('source %s is a symbolic link; entry initially %s; S0 scans, then %s, each followed by load and scan'
          % (SRC, case['entry'], ' ; '.join(case['history'])))
    print('source versions: %s' % ', '.join('v%d since %g' % (v, t) for t, v in ex.monitor.src_hist))
    for k in ex.monitor.calls:
        print('call %s.%s [%g..%g] -> %s' % (k['actor'], k['kind'], k['t0'], k['t1'], k['exc'] or (
            'None' if k['summary'] == 'None' else 'parse of v%s%s' % (k.get('version', '?'),
                                                                     ' from the cache' if k.get('from_cache') else ''))))
    for v in ex.monitor.violations:
        print('VIOLATED by %s [%s]: %s' % (v['call'], v['mechanism'], ' | '.join(v['reasons'])))
    return not ex.monitor.violations


def _work(unit):
    if unit[0] == 'lnk':
        return _work_lnk(unit)
    if unit[0] == 'seq':
        return _work_seq(unit)
    if unit[0] == 'upg':
        return _work_upg(unit)
    part = Part()
    tier, scn, entry, move, bounds = unit
    explore_unit(part, tier, scn, entry, move, bounds)
    return part.result()


def _work_safe(unit):
    import traceback
    try:
        return _work(unit)
    except BaseException:
        return {'error': traceback.format_exc()}


def pmap_fresh(chunks):
    """vt.core.pmap semantics (ordered results, worker error = HarnessBroken), but on freshly
    started interpreters.  Measured here: the same units cost 5-6x more CPU in fork()ed
    children of the loaded parent than in fresh processes (thread hand-offs over
    copy-on-write pages), so forked workers made the 16-way run slower than a serial one."""
    import multiprocessing
    from vt.core import NCPU
    chunks = list(chunks)
    if NCPU <= 1 or len(chunks) <= 1:
        for r in pmap(_work, chunks, jobs=1):
            yield r
        return
    with multiprocessing.get_context('spawn').Pool(min(NCPU, len(chunks))) as pool:
        for r in pool.imap(_work_safe, chunks):
            if 'error' in r:
                raise HarnessBroken(r['error'])
            yield r


def units(tier):
    out = []
    for scn in SCN_ORDER:
        for entry in ENTRY_STATES:
            for move in MOVES:
                bounds = bounds_for(tier, scn)
                if tier == 'quick' and entry in ('trunc0', 'trunc2', 'trunc-frame'):
                    # the extra truncation classes differ from trunc-mid only in the exception class
                    # pickle.load raises: quick explores them up to 1 preemption, thorough fully
                    bounds = [b for b in bounds if b <= 1]
                out.append((tier, scn, entry, move, bounds))
    return out


def _weight(u):
    if u[0] in ('seq', 'upg', 'lnk'):
        return -30
    _, scn, entry, move, bounds = u
    w = len(SCENARIOS[scn]) ** 3 * (3 if 'scan' in scn else 1) * (2 if 'purge' in scn else 1)
    return -(w * (2 if move == 'copy' else 1) * (1 if entry == 'fresh' else 2))


def run(ctx):
    us = units(ctx.tier)
    from vt.core import chunked
    seq = seq_cases(ctx.tier)
    us += [('seq', c) for c in chunked(seq, 12)]
    us += [('upg', c) for c in chunked(upgrade_histories(), 4)]
    us += [('lnk', link_histories())]
    ctx.max_reports = 60
    # heaviest first (load balance); the seed only rotates dispatch among equal weights
    us = sorted(rotate(us, ctx.seed), key=_weight)
    per_key = {}
    parts = []
    for r in pmap_fresh(us):
        viols = r.pop('violations')
        r['violations'] = []
        ctx.merge(r)
        for key, desc, case in viols:
            if key not in per_key or tuple(case['rank']) < tuple(per_key[key][1]['rank']):
                per_key[key] = (desc, case)
    for key in sorted(per_key):
        desc, case = per_key[key]
        ctx.violation(key, desc, case)
    per_bound = {}
    for k in list(ctx.cov):
        if k.startswith('bound') and '.' in k:
            b, what = k.split('.')
            per_bound.setdefault(b, {})[what] = ctx.cov.pop(k)
    ctx.set(rule='every schedule of the file-system steps of the actors of each scenario with at most B preemptions '
                 '(B iterated from 0) and, where a storer is killable, at most one kill after any of its steps; '
                 'x initial entry state x move kind; depth-first with prefix re-execution on fresh threads, state '
                 'cache on (VFS contents+mtimes, per-actor observations, oracle state). non-trivial = distinct '
                 '(scenario, entry, move, result vector) in which some call returned a parse (oracle answered MUST '
                 'on its version). Sequential family (one process, no scheduling): every prefix length of a real '
                 'entry, every cut at/around a frame boundary of a multi-frame entry and a list of garbage classes, '
                 'each under load and under _parse_include: None / a fresh parse, no exception. Scanner-upgrade family '
                 '(one process at a time): every history of 1-2 operations upgrade(module, new mtime older than all / '
                 'between / newest) over 3 installation files, performed between a store and a load: no entry '
                 'written under another installation is returned (R4)',
            bounds={'scenarios': SCN_ORDER, 'entry_states': list(ENTRY_STATES), 'moves': list(MOVES),
                    'preemption_bounds': dict((s, bounds_for(ctx.tier, s)) for s in SCN_ORDER),
                    'quick_cap_for_entries': {'trunc0/trunc2/trunc-frame': 'bounds <= 1 in the quick tier'},
                    'per_bound': per_bound,
                    'symlinked_source': {'operations': ['rewrite target in place', 're-point link'],
                                         'history_length': [1, 2], 'entries': ['absent', 'fresh', 'stale'],
                                         'cases': len(link_histories()),
                                         'concurrent': ['scan||modify(symlink-rewrite)', 'scan||modify(symlink-repoint)']},
                    'scanner_upgrade': {'modules': sorted(MODULES), 'new_mtime_classes': sorted(UPGRADE_MTIME),
                                        'history_length': [1, 2], 'histories': len(upgrade_histories())},
                    'sequential': {'prefix_lengths': [0, _L], 'multi_frame_entry_bytes': len(_BIG[0]),
                                   'frame_boundary_cuts': len(_frame_cuts(_BIG[0])),
                                   'garbage_classes': [n for n, _ in garbage_classes()],
                                   'unspecified': ['foreign-object (well-formed pickle of a non-parser)'],
                                   'calls': ['CacheStore.load', 'Transformer._parse_include']}, 'read_chunk': CHUNK, 'pickle_len': _L,
                    'write_split': 2, 'copy_chunks': 2})
    ctx.assumptions += [
        'each virtual-file-system call is atomic; Python code between calls has no effect other processes can see',
        'logical clock strictly increasing in steps of 0.25 s off the integer grid (float st_mtime through stat and fstat): '
        'several ordered events share a whole second; no two mutations share a timestamp; sources never carry older mtimes',
        'process kill only (buffered, unflushed data is lost; completed writes are never reordered)',
        'invisible (no scheduling point): path functions, environment, stat/glob of the per-process scanner '
        'installation, makedirs of an existing directory, close(), the EXDEV-failing rename and the isdir probe '
        'of shutil.move',
        'shutil.move modelled after CPython 3.12: rename, or copyfile (O_TRUNC on the same inode, 2 chunks) + '
        'copystat by path + unlink; verified against the real shutil on a real directory',
        'source replaced atomically (new inode); reading it is one step',
        'loader/storer/scan processes have constructed CacheStore() before the concurrent phase; the purger '
        'constructs it concurrently',
        'st_ino is not part of the observation history',
    ]
    if len(ctx._outcomes) < 40:
        raise HarnessBroken('vacuous exploration: %d outcomes' % len(ctx._outcomes))
    if not ctx._nontrivial:
        raise HarnessBroken('oracle never answered MUST')


def replay_sequential(ctx, case):
    c = tuple(case['case'])
    content = seq_content(c)
    print('one process, entry = %s %r: %d bytes %r..., newer than the source (v2)' % (c[0], c[1], len(content), content[:16]))
    ok = True
    for call in ('load', 'scan'):
        ex = seq_run(c, call)
        for k in ex.monitor.calls:
            print('call %s.%s -> %s' % (k['actor'], k['kind'], k['exc'] or ('None' if k['summary'] == 'None' else
                                                                          'parse of v%s' % k.get('version', '? ' + repr(k['summary'])))))
        for v in ex.monitor.violations:
            ok = False
            print('VIOLATED by %s [%s]: %s' % (v['call'], v['mechanism'], ' | '.join(v['reasons'])))
    return ok


def replay(ctx, case):
    if case['scenario'] == 'sequential':
        return replay_sequential(ctx, case)
    if case['scenario'] == 'symlink':
        return replay_symlink(ctx, case)
    if case['scenario'] == 'upgrade':
        return replay_upgrade(ctx, case)
    scn, entry, move = case['scenario'], case['entry'], case['move']
    crash = 1

    def factory():
        return make_exec(scn, entry, move)
    logs = []
    viols = None
    for n in range(2):
        ex = sched.replay(factory, case['schedule'], crash)
        viols = list(finish(ex))
        logs.append((ex.obs_log(), results_of(ex), end_state(ex)))
    if logs[0] != logs[1]:
        raise HarnessBroken('two replays of the same schedule differ')
    print('scenario %s, entry initially %s, move kind %s' % (scn, entry, move))
    print('source history: v1 since tick 10.375, v2 since tick 20.625%s' %
          ''.join(', v%d since tick %g' % (v, t) for t, v in ex.monitor.src_hist[2:]))
    print('schedule (%d preemptions, %d kills):' % (ex.preemptions, ex.crashes))
    for t, l in ex.oplog:
        print('   %-3s %s' % (t, l))
    for c in ex.monitor.calls:
        print('call %s.%s [tick %g..%g] -> %s' % (c['actor'], c['kind'], c['t0'], c['t1'],
                                                   c['exc'] or ('None' if c['summary'] == 'None' else
                                                                'parse of v%s' % c.get('version', '? ' + repr(c['summary'])))))
    for v in viols:
        print('VIOLATED by %s [%s]: %s' % (v['call'], v['mechanism'], ' | '.join(v['reasons'])))
        print('   suggested fix: %s' % FIXES.get(v['mechanism'], 'n/a'))
    return not viols
