"""C16 - scanner output is deterministic and independent of irrelevant order.

Explorer shape E4 (choice-point ownership of hidden nondeterminism) + E2 (cache histories).

 P0  static proof obligations, repeated on every run: in every loaded giscanner module every set
     is created by a call of the global NAME `set` (no literal, comprehension, frozenset, dict-view
     algebra, rebinding), and the modules on the path to the GIR never call hash()/id() outside
     __hash__, list directories, read the clock or draw random numbers.  If an obligation fails the
     run still explores (a violation it finds is real) but can no longer pass: HarnessBroken.
 P1  the name `set` of those modules is bound to vt.choice.ChoiceSet; every iteration of a set with
     >= 2 elements is a choice point; ALL executions with <= D non-default permutations are run
     (sets of <= 4 (thorough: 5) elements fully permuted, larger ones by transpositions / reversal /
     rotations).  D exceeds the number of choice points of every input, i.e. every combination of
     the offered permutations is executed.
     Audit per input: (a) the patched default run is byte-identical to the unpatched run, (b) no
     object of exact type set/frozenset is reachable from the namespace / transformer / blocks,
     (c) no giscanner frame ever holds a plain set in a local variable (line-level trace).
     Oracle: GIR bytes == reference bytes.
 P2  arrival orders (also inside the runtime dump: top-level elements and the property / signal /
     implements / prerequisite children of each type): every C-admissible permutation of the
     declarations displacing <= m of them (all
     permutations for short lists; plus rotations, reversal, header-file swap), once with each
     declaration keeping its own line (bytes must be equal) and once with line numbers following the
     new order (bytes equal after blanking source-position line numbers => sibling order is a function
     of names and kinds, not of arrival order or position); every permutation of the comment blocks
     displacing <= m; every assignment of the first <= 4 blocks to a.c/b.c with the files supplied in
     both orders.  Typedef-before-struct vs struct-before-typedef is one of the transpositions.
 P3  on the reference outputs: with two include directories holding a same-named dependency GIR the
     first directory given wins (both orders are inputs); one global "comes before" relation on (parent kind, kind, name) must be
     antisymmetric over all outputs; parameters, fields and enum members are in declaration order.
 P4  cache histories (E2): every history of <= L operations ending in a run, over
     {run, edit dep, five kinds of broken entry, drop entry, age entry, invalidate cache version}, on real files below
     .build/c16/; after EVERY run the GIR equals the cache-disabled GIR for the current dependency files.
 P5  K fresh interpreters with distinct PYTHONHASHSEED (cross-check of the ChoiceSet argument).
"""
import gc
import hashlib
import importlib
import itertools
import json
import os
import re
import shutil
import subprocess
import sys
import tempfile
import types

from vt.core import Part, pmap, chunked, rotate, HarnessBroken, ROOT, REPO, NCPU
from vt import choice
from vt.scan import fake, run as scanrun, girread
from vt.scan import c16_inputs as I

LEVEL = 'model_checking'

REQUIRED = ['giscanner.ast', 'giscanner.transformer', 'giscanner.maintransformer',
            'giscanner.introspectablepass', 'giscanner.gdumpparser', 'giscanner.girparser',
            'giscanner.girwriter', 'giscanner.message', 'giscanner.annotationparser', 'giscanner.utils',
            'giscanner.cachestore', 'giscanner.xmlwriter', 'giscanner.sourcescanner']

BOUNDS = {
    'quick': {'dev': 64, 'full_upto': 4, 'decl_moved': 3, 'decl_full': 5, 'block_moved': 4, 'block_full': 5, 'hist': 3,
              'seeds': 3},
    'thorough': {'dev': 64, 'full_upto': 5, 'decl_moved': 4, 'decl_full': 6, 'block_moved': 5, 'block_full': 6, 'hist': 4,
                 'seeds': 16},
}


# ------------------------------------------------------------------ helpers ---
def pipeline_modules():
    for n in REQUIRED:
        importlib.import_module(n)
    mods = []
    for n, m in sorted(sys.modules.items()):
        if (n == 'giscanner' or n.startswith('giscanner.')) and m is not None:
            f = getattr(m, '__file__', None)
            if f and f.endswith('.py'):
                mods.append(m)
    return mods


STATIC_NOTES = []


def static_scan():
    """P0.  Returns (modules scanned, set() call sites).  Failed proof obligations are collected in
    STATIC_NOTES: the exploration still runs (a violation it finds is real), but without a violation
    the run ends as HarnessBroken - the check never passes with an obligation open."""
    mods = pipeline_modules()
    problems = []
    calls = 0
    repo = os.path.realpath(REPO)
    for m in mods:
        if not os.path.realpath(m.__file__).startswith(repo + os.sep):
            raise HarnessBroken('%s is loaded from %s, not from %s' % (m.__name__, m.__file__, REPO))
        p, c = choice.scan_source(m.__file__)
        problems += p
        calls += c
    gir_path = [m for m in mods if m.__name__.split('.')[-1] in (
        'ast', 'transformer', 'maintransformer', 'introspectablepass', 'gdumpparser', 'girparser', 'girwriter',
        'message', 'annotationparser', 'xmlwriter', 'sourcescanner')]
    inv = []
    for m in gir_path:
        inv += choice.inventory_source(m.__file__)
    notes = []
    if inv:
        notes.append('nondeterminism inventory changed (a source of run-to-run variation other than set iteration '
                     'is now on the path to the GIR; the explorer does not own it): ' + '; '.join(inv[:6]))
    if problems:
        notes.append('a set can be created outside the explorer\'s control; extend vt/choice.py before trusting '
                     'this check: ' + '; '.join(problems[:8]))
    if calls < 5:
        raise HarnessBroken('static scan found only %d set() call sites - wrong modules?' % calls)
    STATIC_NOTES[:] = notes
    return len(mods), calls


def sha(b):
    return hashlib.sha1(b if isinstance(b, bytes) else b.encode()).hexdigest()[:16]


def observe(res):
    """What the property talks about: the bytes of the GIR (or the failure to produce one)."""
    if res.error is not None or res.xml is None:
        # the text of a fatal message lists file positions in set order and goes to stderr: only the
        # fact that no GIR was produced (and why, by exception class) is the observation
        return b'ERROR: no GIR (' + (res.error or 'no output').split(':')[0].encode() + b')'
    return res.xml


def diag(res):
    return [(r['type'], r['text'], r['positions']) for r in res.records]


def first_diff(a, b):
    la, lb = a.decode('utf-8', 'replace').split('\n'), b.decode('utf-8', 'replace').split('\n')
    for i, (x, y) in enumerate(zip(la, lb)):
        if x != y:
            return 'line %d: %r  vs  %r' % (i + 1, x.strip()[:110], y.strip()[:110])
    if len(la) != len(lb):
        return 'length %d vs %d lines' % (len(la), len(lb))
    return 'identical'


_SRCPOS = re.compile(br'(<source-position filename="[^"]*" line=")\d+(")')


def blank_lines(xml):
    return _SRCPOS.sub(br'\1#\2', xml)


def scripted(inp, script, **kw):
    choice.EXPLORER.begin(script)
    try:
        res = I.execute(inp, **kw)
    finally:
        trace = choice.EXPLORER.end()
    return res, trace


def script_json(script):
    return {str(k): list(v) for k, v in sorted(script.items())}


def script_unjson(obj):
    return {int(k): tuple(v) for k, v in obj.items()}


# --------------------------------------------------------------- P1: audit ---
_SKIP_TYPES = (types.ModuleType, types.FunctionType, types.BuiltinFunctionType, types.MethodType,
               types.CodeType, types.FrameType, type)


def reachable_plain_sets(roots):
    """Walk the object graph from the pipeline's result objects; return (plain sets found,
    ChoiceSets found)."""
    seen = set()
    stack = list(roots)
    plain, owned = [], 0
    while stack:
        o = stack.pop()
        if id(o) in seen or isinstance(o, _SKIP_TYPES):
            continue
        seen.add(id(o))
        if type(o) in (set, frozenset):
            plain.append(repr(o)[:80])
            continue
        if type(o) is choice.ChoiceSet:
            owned += 1
            stack.extend(list(o._d))
            continue
        if isinstance(o, (str, bytes, int, float, bool, type(None))):
            continue
        stack.extend(gc.get_referents(o))
    return plain, owned


def trace_locals(inp):
    """Run the pipeline under a line tracer; report every giscanner frame that ever has an
    object of exact type set/frozenset in a local variable."""
    hits = []
    seen_sites = set()
    gdir = os.path.join(os.path.realpath(REPO), 'giscanner') + os.sep
    lines = [0]

    def local(frame, event, arg):
        lines[0] += 1
        for k, v in frame.f_locals.items():
            if type(v) in (set, frozenset):
                site = (frame.f_code.co_filename, frame.f_lineno, k)
                if site not in seen_sites:
                    seen_sites.add(site)
                    hits.append('%s:%d local %s' % (os.path.basename(site[0]), site[1], k))
        return local

    infile = {}

    def tracer(frame, event, arg):
        fn = frame.f_code.co_filename
        hit = infile.get(fn)
        if hit is None:
            hit = infile[fn] = os.path.realpath(fn).startswith(gdir)
        return local if hit else None
    sys.settrace(tracer)
    try:
        res = I.execute(inp)
    finally:
        sys.settrace(None)
    return hits, lines[0], res


def _work_audit(chunk):
    """Per input: neutrality of the patch, ownership of every set, reference trace."""
    part = Part()
    out = {}
    for name in chunk:
        inp = I.by_name(name)
        choice.uninstall()
        plain = I.execute(inp)
        if bool(plain.error) != bool(inp.get('expect_error')):
            raise HarnessBroken('input %s: unexpected outcome of the plain scan: %s' % (name, plain.error or 'no error'))
        mods = pipeline_modules()
        choice.install(mods)
        try:
            if sorted(choice.installed()) != sorted(m.__name__ for m in mods):
                raise HarnessBroken('ChoiceSet not installed in every module')
            res, trace = scripted(inp, {}, keep=True)
            created, small = choice.EXPLORER.created, choice.EXPLORER.small
            native_differs = observe(res) != observe(plain)
            # If the default (insertion-order) run differs from the unpatched run the output depends on
            # set order; the exploration must then find a permutation explaining it (checked in run()).
            if diag(res) != diag(plain):
                # the unpatched run uses the interpreter's native set order (PYTHONHASHSEED=0 under
                # ./check); only the order of diagnostics may differ
                if not native_differs and sorted(map(repr, diag(res))) != sorted(map(repr, diag(plain))):
                    raise HarnessBroken('installing ChoiceSet changed the diagnostics of %s' % name)
            roots = [res.namespace, res.transformer, res.blocks]
            plain_sets, owned = reachable_plain_sets(roots)
            notes = []
            if plain_sets:
                notes.append('%s: plain set objects reachable from the pipeline state: %s' % (name, plain_sets[:3]))
            hits, nlines, res2 = trace_locals(inp)
            if hits:
                notes.append('%s: giscanner code holds plain sets the explorer does not own: %s' % (name, hits[:4]))
            if observe(res2) != observe(res):
                raise HarnessBroken('tracing changed the output of %s' % name)
            part.add(evaluations=3, audit_lines_traced=nlines, choice_sets_reachable=owned,
                     choice_sets_created=created, trivial_iterations=small)
            out[name] = {'trace': trace, 'sha': sha(observe(res)), 'xml': observe(res).decode('utf-8'),
                         'created': created, 'native_differs': native_differs, 'notes': notes,
                         'native_sha': sha(observe(plain))}
        finally:
            choice.uninstall()
    r = part.result()
    r['audit'] = out
    return r


# -------------------------------------------------------- P1: exploration ---
def _minimise(inp, script, ref):
    """Smallest sub-script that still changes the output (greedy removal)."""
    cur = dict(script)
    changed = True
    while changed and len(cur) > 1:
        changed = False
        for k in sorted(cur):
            trial = {a: b for a, b in cur.items() if a != k}
            res, _ = scripted(inp, trial)
            if observe(res) != ref:
                cur = trial
                changed = True
                break
    return cur


def _work_choice(chunk):
    part = Part()
    name, firsts, max_dev, full_upto = chunk
    inp = I.by_name(name)
    choice.install(pipeline_modules())
    try:
        ref_res, ref_trace = scripted(inp, {})
        ref = observe(ref_res)
        ref_diag = diag(ref_res)
        reported = set()

        def execute(script):
            res, trace = scripted(inp, script)
            return res, trace
        for first in firsts:
            for script, res, trace in choice.explore(execute, max_dev, ref_trace, first=first, full_upto=full_upto):
                part.add(evaluations=1, traces_validated_against_impl=1, states=1, transitions=len(script))
                if choice.EXPLORER.applied != len(script):
                    raise HarnessBroken('script %r of %s: %d of %d deviations applied' % (
                        script, name, choice.EXPLORER.applied, len(script)))
                sites = tuple(sorted(set(trace[k][1] for k in script)))
                part.nontrivial('%s:%s:%d' % (name, '+'.join(sites), len(script)))
                got = observe(res)
                if got != ref:
                    mini = _minimise(inp, script, ref)
                    mres, mtrace = scripted(inp, mini)
                    msites = sorted(set(mtrace[k][1] for k in mini))
                    key = 'choice:%s:%s' % (name, '+'.join(msites))
                    part.outcome('DIFF:' + key)
                    if key not in reported:
                        reported.add(key)
                        mgot = observe(mres)
                        part.violation(key, 'GIR of input %r depends on the iteration order of the set iterated at %s '
                                       '(%s)' % (name, ' and '.join(msites), first_diff(ref, mgot)),
                                       {'kind': 'choice', 'input': name, 'script': script_json(mini),
                                        'sites': msites, 'reference_sha': sha(ref), 'observed_sha': sha(mgot),
                                        'first_difference': first_diff(ref, mgot)})
                else:
                    part.outcome('same:%s:%d' % (name, len(trace)))
                    if diag(res) != ref_diag:
                        # order of warnings on stderr follows set order: not covered by the statement
                        part.add(unspecified=1)
                        part.outcome('diagnostics-reordered:%s' % name)
        if firsts and firsts[0] == 0:
            part.sample({'phase': 'choice', 'input': name, 'choice_points': [list(t) for t in ref_trace[:6]],
                         'c': I.fake.c_of(inp['decls'])[:400]})
    finally:
        choice.uninstall()
    return part.result()


# ------------------------------------------------------------ P2: arrival ---
def small_perms(n, moved, full_upto):
    """Permutations of range(n), simplest first: all of them if n <= full_upto, else all that
    displace at most `moved` elements; then rotations and the reversal."""
    seen = set()
    out = []
    ident = tuple(range(n))

    def emit(p):
        if p != ident and p not in seen:
            seen.add(p)
            out.append(p)
    if n <= full_upto:
        allp = sorted(itertools.permutations(range(n)), key=lambda p: (sum(1 for i, x in enumerate(p) if i != x), p))
        for p in allp:
            emit(p)
        return out
    for k in range(2, moved + 1):
        for S in itertools.combinations(range(n), k):
            for img in itertools.permutations(S):
                if all(a != b for a, b in zip(S, img)):
                    p = list(ident)
                    for a, b in zip(S, img):
                        p[a] = b
                    emit(tuple(p))
    for r in range(1, n):
        emit(ident[r:] + ident[:r])
    emit(tuple(reversed(ident)))
    return out


def decl_orders(inp, moved, full_upto):
    n = len(inp['decls'])
    perms = small_perms(n, moved, full_upto)
    # the two header files supplied in the other order
    swap = tuple([i for i in range(n) if inp['files'][i] == I.B] + [i for i in range(n) if inp['files'][i] == I.A])
    if swap != tuple(range(n)) and swap not in perms:
        perms.append(swap)
    deps = [I.typedef_deps(d) for d in inp['decls']]
    definer = {}
    for i, (df, _) in enumerate(deps):
        for nm in df:
            definer.setdefault(nm, i)
    need = []
    for i, (_, used) in enumerate(deps):
        for nm in sorted(used):
            j = definer.get(nm)
            if j is not None and j != i:
                need.append((j, i))
    groups = I.tag_typedef_groups(inp['decls'])
    out = []
    unspec = []
    rejected = 0
    for p in perms:
        pos = [0] * n
        for k, d in enumerate(p):
            pos[d] = k
        if not all(pos[j] < pos[i] for j, i in need):
            rejected += 1
        elif any(pos[g[a]] > pos[g[a + 1]] for g in groups for a in range(len(g) - 1)):
            # several typedef names for one tag: the first typedef owns the structure (documented in
            # transformer.py); which typedef comes first is input, not irrelevant order
            unspec.append(p)
        else:
            out.append(p)
    return out, rejected, unspec


def block_file_cases(inp):
    """(assignment, [arrival orders]) - the assignment is part of the input; the orders are not."""
    nb = len(inp['blocks'])
    k = min(nb, 4)
    cases = []
    for bits in itertools.product(('/src/a.c', '/src/b.c'), repeat=k):
        files = list(bits) + ['/src/a.c'] * (nb - k)
        ga = [i for i in range(nb) if files[i] == '/src/a.c']
        gb = [i for i in range(nb) if files[i] == '/src/b.c']
        orders = []
        for o in (ga + gb, gb + ga, ga[::-1] + gb[::-1], gb[::-1] + ga[::-1], list(range(nb))[::-1]):
            if o != list(range(nb)) and o not in orders:
                orders.append(o)
        cases.append((files, orders))
    return cases


def dump_cases(inp, moved, full_upto):
    """Orders inside the runtime dump: top-level elements, and the property / signal / implements /
    prerequisite children of every class and interface (one element permuted at a time, then all
    reversed together)."""
    dump = inp['dump'] or {}
    cases = []
    ntop = len(dump)
    for p in small_perms(ntop, moved, full_upto):
        cases.append(({}, list(p)))
    allrev = {}
    for g in sorted(dump):
        el = dump[g]
        if I.permutable_kids(el):
            n = len(el['kids'])
            for p in small_perms(n, moved, full_upto):
                cases.append(({g: list(p)}, None))
            allrev[g] = list(range(n))[::-1]
    if len(allrev) > 1 or (allrev and ntop > 1):
        cases.append((allrev, list(range(ntop))[::-1] if ntop > 1 else None))
    return cases


def _perm_desc(p):
    moved = [(i, x) for i, x in enumerate(p) if i != x]
    return 'arrival order %s (position<-item %s)' % (list(p), moved[:6])


def _work_perm(chunk):
    part = Part()
    name, mode, items = chunk
    inp = I.by_name(name)
    ref_res = I.execute(inp)
    ref = observe(ref_res)
    if bool(ref_res.error) != bool(inp.get('expect_error')):
        raise HarnessBroken('input %s: %s' % (name, ref_res.error or 'scan did not fail'))
    part.add(evaluations=1)
    ref_blank = blank_lines(ref)
    viol = []
    for rank, p in items:
        if mode == 'decl-fixed':
            got = observe(I.execute(inp, decl_order=p))
            bad = got != ref
            a, b = ref, got
        elif mode == 'decl-renum':
            got = observe(I.execute(inp, decl_order=p, renumber=True))
            bad = blank_lines(got) != ref_blank
            a, b = ref_blank, blank_lines(got)
            part.outcome('renum-changes-bytes:%s' % (got != ref))
        elif mode == 'decl-unspec':
            # executed, must not crash and must be reproducible; the bytes are not compared
            got = observe(I.execute(inp, decl_order=p))
            again = observe(I.execute(inp, decl_order=p))
            bad = got.startswith(b'ERROR: ') != bool(inp.get('expect_error')) or got != again
            a, b = got, again
            part.add(unspecified=1, evaluations=1)
            part.outcome('typedef-order-visible:%s' % (got != ref))
        elif mode == 'blocks':
            got = observe(I.execute(inp, block_order=p))
            bad = got != ref
            a, b = ref, got
        elif mode == 'dump':
            kid_orders, top_order = p
            got = observe(I.execute(inp, kid_orders=kid_orders, top_order=top_order))
            bad = got != ref
            a, b = ref, got
            p = (kid_orders, top_order)
        elif mode == 'blockfiles':
            files, orders = p
            base = observe(I.execute(inp, block_files=files))
            part.add(evaluations=1, states=1)
            part.outcome('file-assignment-visible:%s' % (base != ref))
            bad = False
            for o in orders:
                got = observe(I.execute(inp, block_files=files, block_order=o))
                part.add(evaluations=1, traces_validated_against_impl=1, transitions=1)
                part.nontrivial('%s:bf:%s:%s' % (name, ''.join(f[5] for f in files), o))
                if got != base and not bad:
                    bad = True
                    a, b = base, got
                    p = (files, o)
        else:
            raise HarnessBroken(mode)
        if mode == 'dump':
            part.add(evaluations=1, traces_validated_against_impl=1, states=1, transitions=1)
            part.nontrivial('%s:%s:%s' % (name, mode, json.dumps(p, sort_keys=True)))
        elif mode != 'blockfiles':
            part.add(evaluations=1, traces_validated_against_impl=1, states=1,
                     transitions=sum(1 for i, x in enumerate(p) if i != x))
            part.nontrivial('%s:%s:%s' % (name, mode, p))
        part.outcome('%s:%s' % (mode, 'DIFF' if bad else 'same'))
        if bad:
            viol.append((rank, p, first_diff(a, b)))
    r = part.result()
    r['perm_violations'] = [(name, mode, rank, p, d) for rank, p, d in viol[:3]]
    if items:
        r['samples'].append({'phase': mode, 'input': name, 'example': items[len(items) // 2][1] if mode != 'blockfiles'
                             else items[-1][1][0]})
    return r


MODE_TEXT = {
    'decl-fixed': 'the GIR changes when the same declarations (each with its own file and line) arrive in another C-admissible order',
    'decl-renum': 'apart from source-position line numbers the GIR changes when the declarations are written in another C-admissible order',
    'blocks': 'the GIR changes when the same comment blocks (distinct identifiers) are supplied in another order',
    'blockfiles': 'the GIR changes when the source files containing the comment blocks are supplied in another order',
    'decl-unspec': 'the scanner fails (or stops failing) or is not reproducible when several definitions of one name / typedefs of one tag arrive in another order',
    'dump': 'the GIR changes when the runtime dump lists the same types / properties / signals / interfaces in another order',
}


# ------------------------------------------------------- P3: order relation ---
ORDERED_TAGS = ('alias', 'function', 'function-macro', 'function-inline', 'constructor', 'method', 'virtual-method',
                'property', 'glib:signal', 'callback', 'constant', 'enumeration', 'bitfield', 'class', 'interface',
                'record', 'union', 'glib:boxed', 'docsection', 'implements', 'prerequisite', 'include', 'package',
                'c:include')
PARENTS = ('repository', 'namespace', 'class', 'interface', 'record', 'union', 'enumeration', 'bitfield', 'glib:boxed')


def sibling_relation(xml, rel, where):
    """Add every (parent kind, A, B) with A before B to rel; A, B = (kind, name)."""
    root = girread.parse(xml)
    for el in root.iter():
        if el.tag not in PARENTS:
            continue
        nested = el.parent is not None and el.parent.tag in ('record', 'union', 'class', 'interface', 'field')
        sibs = []
        for k in el.kids:
            if k.tag not in ORDERED_TAGS or k.get('name') is None:
                continue
            if el.tag != 'namespace' and k.tag in ('record', 'union', 'callback'):
                continue        # anonymous / inline members are fields: declaration order
            sibs.append((k.tag, k.get('name')))
        if nested:
            continue
        for i in range(len(sibs)):
            for j in range(i + 1, len(sibs)):
                rel.setdefault((el.tag, sibs[i], sibs[j]), where)
    return root


def declared_order_problems(inp, root):
    """Parameters, fields and enum members must be in declaration order."""
    problems = []
    checked = 0
    funcs = {}
    fieldlists = set()
    memberlists = set()
    for d in inp['decls']:
        if isinstance(d, I.Func):
            funcs[d.name] = [p[1] for p in d.params] + (['...'] if d.varargs else [])
        elif isinstance(d, (I.Struct, I.TypedefAnon)):
            fieldlists.add(tuple(f.name for f in d.fields))
        elif isinstance(d, I.Enum):
            memberlists.add(tuple(m[0] for m in d.members))
    for el in root.iter():
        ident = el.get('c:identifier')
        if el.tag in ('function', 'method', 'constructor') and ident in funcs:
            inst, ps = el.params()
            names = ([inst.get('name')] if inst is not None else []) + [p.get('name') for p in ps]
            checked += 1
            if names != funcs[ident]:
                problems.append('%s: parameters %r, declared %r' % (ident, names, funcs[ident]))
        elif el.tag in ('record', 'union', 'class') and el.parent is not None and el.parent.tag == 'namespace':
            names = tuple(k.get('name') for k in el.kids if k.tag in ('field', 'union', 'record'))
            if names:
                checked += 1
                if names not in fieldlists:
                    problems.append('%s %s: fields %r are not a declared field list' % (el.tag, el.get('name'), names))
        elif el.tag in ('enumeration', 'bitfield'):
            names = tuple(k.get('c:identifier') for k in el.kids if k.tag == 'member')
            checked += 1
            if names not in memberlists:
                problems.append('%s %s: members %r are not in declaration order' % (el.tag, el.get('name'), names))
    return problems, checked


# ------------------------------------------------------------ P4: cache ---
EDITABLE = ('Top-1.0', 'Aa-1.0')
CACHE_INPUTS = ('deps', 'deps-tie', 'incpaths-ab', 'incpaths-ba', 'hilo')
DEPA, DEPB = 'inc_a/Dep-1.0', 'inc_b/Dep-1.0'
T0 = 1000000000
T0_NS = T0 * 10 ** 9 + 100000000      # logical clock: T0 + 0.1 s + 0.25 s per tick
TICK_NS = 250000000


def cache_menu(tier):
    ops = [('run', 0), ('run', 2), ('run', 3), ('run', 4)]
    if tier == 'thorough':
        ops.append(('run', 1))
    ops += [('touch', DEPA), ('touch', DEPB)]
    for f in EDITABLE:
        ops += [('edit', f), ('garbage', f), ('empty', f), ('text', f), ('badglobal', f), ('truncate', f), ('drop', f),
                ('age', f)]
    ops.append(('version',))
    return ops


def cache_histories(tier, maxlen):
    menu = cache_menu(tier)
    runs = [o for o in menu if o[0] == 'run']
    out = []
    for n in range(1, maxlen + 1):
        for pre in itertools.product(menu, repeat=n - 1):
            for last in runs:
                out.append(list(pre) + [last])
    return out


def foreign_pickle():
    """A well-formed pickle whose class cannot be imported - what an entry written by another
    version of the scanner looks like (pickle.load raises ModuleNotFoundError)."""
    import pickle
    name = 'giscanner_c16_nosuchmod'
    m = types.ModuleType(name)
    cls = type('GIRParser', (object,), {})
    cls.__module__ = name
    m.GIRParser = cls
    sys.modules[name] = m
    try:
        return pickle.dumps(cls(), protocol=2)
    finally:
        del sys.modules[name]


class CacheWorld(object):
    """Real files: <root>/deps/*.gir, <root>/xdg/g-ir-scanner/<sha1>.  Logical clock instead of
    the wall clock: after every operation the files written by it get the next tick as mtime, so
    every mtime comparison the implementation makes sees the true order of events.  A tick is
    0.25 s from a non-integer base (set in nanoseconds on the real files), so an edit right after a
    run is strictly later than the entry but mostly within the same whole second.  Two events never
    share a timestamp (equal mtimes are out of scope)."""

    def __init__(self, root):
        self.root = root
        shutil.rmtree(root, ignore_errors=True)
        self.deps = os.path.join(root, 'deps')
        self.xdg = os.path.join(root, 'xdg')
        os.makedirs(self.deps)
        os.makedirs(self.xdg)
        self.tick = 0
        self.edition = {f: 0 for f in I.GENERATED}
        self.model = {}        # entry state per dep basename: none|fresh|stale|corrupt
        for n in I.GENERATED:
            I.write_atomic(self.path(n), I.dep_text(n, 0), self.now())
        for n in ('GLib-2.0', 'GObject-2.0'):
            with open(os.path.join(scanrun.DEPS, n + '.gir')) as f:
                I.write_atomic(self.path(n), f.read(), self.now())
        # two include directories holding a same-named dependency GIR with different content
        for d, rec in sorted(I.INCDIRS.items()):
            os.makedirs(os.path.join(root, d))
            I.write_atomic(self.path('%s/Dep-1.0' % d), I.incdep_text(rec), self.now())
        self.all = list(I.GENERATED) + ['GLib-2.0', 'GObject-2.0', DEPA, DEPB]
        for n in self.all:
            self.model[n] = 'none'
        if os.stat(self.path('Top-1.0')).st_mtime_ns != T0_NS:
            raise HarnessBroken('the file system below %s does not keep sub-second mtimes' % root)
        self.same_second = 0   # edits that land in the same whole second as the run that made the entry fresh
        self.fresh_since = {}  # dep -> logical time of the run that (re)wrote its entry
        self.entry_of = {}     # 'Name-Version' -> entry files observed to hold that namespace

    def now(self):
        return T0_NS + TICK_NS * self.tick

    def path(self, n):
        if '/' in n:
            return os.path.join(self.root, n + '.gir')
        return os.path.join(self.deps, n + '.gir')

    def include_paths(self, inp):
        return [os.path.join(self.root, d) for d in inp['opts'].get('include_dirs', [])] + [self.deps]

    def visited(self, inp):
        """Dependency files a scan of this input reads (for the model of entry states)."""
        dirs = inp['opts'].get('include_dirs')
        if dirs:
            return ['%s/Dep-1.0' % dirs[0]]
        if inp['name'] == 'hilo':
            return ['High-1.0', 'Low-1.0']
        return ['Top-1.0', 'Aa-1.0', 'Bb-1.0', 'GLib-2.0', 'GObject-2.0']

    def entry(self, n):
        """The cache entry of dependency n: the file OBSERVED to hold that namespace after a run
        (the harness does not assume how the implementation names its entries); if none has been
        seen yet, the documented location sha1(absolute path)."""
        for p in self.entry_of.get(n.split('/')[-1], []):
            if os.path.exists(p):
                return p
        return os.path.join(self.xdg, 'g-ir-scanner', hashlib.sha1(self.path(n).encode('utf-8')).hexdigest())

    def observe_entries(self):
        import pickle
        d = os.path.join(self.xdg, 'g-ir-scanner')
        if not os.path.isdir(d):
            return
        for fn in sorted(os.listdir(d)):
            p = os.path.join(d, fn)
            if fn.startswith('.') or not os.path.isfile(p):
                continue
            try:
                with open(p, 'rb') as fh:
                    ns = pickle.load(fh).get_namespace()
                key = '%s-%s' % (ns.name, ns.version)
            except Exception:
                continue
            lst = self.entry_of.setdefault(key, [])
            if p not in lst:
                lst.append(p)

    def settle(self):
        """Give everything written since the last tick the next logical time."""
        self.tick += 1
        d = os.path.join(self.xdg, 'g-ir-scanner')
        if os.path.isdir(d):
            for fn in os.listdir(d):
                p = os.path.join(d, fn)
                if os.stat(p).st_mtime > T0 * 1.5:
                    os.utime(p, ns=(self.now(), self.now()))
        self.observe_entries()

    def apply(self, op):
        k = op[0]
        if k == 'edit':
            f = op[1]
            self.edition[f] ^= 1
            self.tick += 1
            I.write_atomic(self.path(f), I.dep_text(f, self.edition[f]), self.now())
            if self.model[f] == 'fresh':
                self.model[f] = 'stale'
                # measured on the harness's own clock, not on the implementation's files
                if self.fresh_since[f] // 10 ** 9 == self.now() // 10 ** 9:
                    self.same_second += 1
        elif k == 'touch':
            # same content, newer mtime (decides which of the two Dep-1.0.gir is the younger one)
            f = op[1]
            self.tick += 1
            os.utime(self.path(f), ns=(self.now(), self.now()))
            if self.model[f] == 'fresh':
                self.model[f] = 'stale'
        elif k in ('garbage', 'truncate', 'empty', 'text', 'badglobal'):
            f = op[1]
            e = self.entry(f)
            data = {'garbage': b'\x00garbage that is not a pickle\xff' * 3, 'truncate': b'\x80\x04\x95',
                    'empty': b'', 'text': b'garbage in, garbage out\n',
                    # what an entry written by another version of the scanner looks like
                    'badglobal': foreign_pickle()}[k]
            if k == 'truncate' and os.path.exists(e):
                with open(e, 'rb') as fh:
                    whole = fh.read()
                data = whole[:max(1, len(whole) // 2)]
            os.makedirs(os.path.dirname(e), exist_ok=True)
            self.tick += 1
            I.write_atomic(e, data, self.now())
            self.model[f] = 'corrupt'
        elif k == 'drop':
            try:
                os.unlink(self.entry(op[1]))
            except FileNotFoundError:
                pass
            self.model[op[1]] = 'none'
        elif k == 'age':
            f = op[1]
            e = self.entry(f)
            if os.path.exists(e):
                t = os.stat(self.path(f)).st_mtime_ns - 5 * 10 ** 9
                os.utime(e, ns=(t, t))
                if self.model[f] == 'fresh':
                    self.model[f] = 'stale'
        elif k == 'version':
            d = os.path.join(self.xdg, 'g-ir-scanner')
            os.makedirs(d, exist_ok=True)
            I.write_atomic(os.path.join(d, '.cache-version'), 'not-the-hash')
            for n in self.all:
                self.model[n] = 'none'
        else:
            raise HarnessBroken(repr(op))

    def state(self):
        return (tuple(self.edition[f] for f in EDITABLE), tuple(self.model[n] for n in self.all))


class _Env(object):
    """Environment needed by the real CacheStore: cache enabled, XDG_CACHE_HOME, an existing
    sys.argv[0] (the version hash stats it), temp files below .build/."""

    def __init__(self, xdg, tmp):
        self.xdg, self.tmp = xdg, tmp

    def __enter__(self):
        self.saved = {k: os.environ.get(k) for k in ('GI_SCANNER_DISABLE_CACHE', 'XDG_CACHE_HOME')}
        os.environ.pop('GI_SCANNER_DISABLE_CACHE', None)
        os.environ['XDG_CACHE_HOME'] = self.xdg
        self.argv = sys.argv[:]
        sys.argv[:] = [os.path.join(ROOT, 'check')]
        self.tempdir = tempfile.tempdir
        os.makedirs(self.tmp, exist_ok=True)
        tempfile.tempdir = self.tmp
        return self

    def __exit__(self, *a):
        for k, v in self.saved.items():
            if v is None:
                os.environ.pop(k, None)
            else:
                os.environ[k] = v
        sys.argv[:] = self.argv
        tempfile.tempdir = self.tempdir


def run_history(root, hist, expected, inputs, loads=None):
    """Execute one history on real files.  expected: {(input idx, editions): bytes}.  Returns
    (problem or None, [model states before each run], n_runs)."""
    w = CacheWorld(root)
    states = []
    nruns = 0
    with _Env(w.xdg, os.path.join(root, 'tmp')):
        for step, op in enumerate(hist):
            if op[0] != 'run':
                w.apply(op)
                continue
            inp = inputs[op[1]]
            states.append(w.state())
            if loads is not None:
                loads.append(None)
            res = I.execute(inp, use_cache=True, include_paths=w.include_paths(inp))
            nruns += 1
            w.settle()
            got = observe(res)
            want = expected[(op[1], tuple(w.edition[f] for f in EDITABLE))]
            for n in w.visited(inp):
                w.model[n] = 'fresh'
                w.fresh_since[n] = w.now()
            if got != want:
                return ('run at step %d (cache state %s): %s' % (step, dict(zip(w.all, states[-1][1])),
                                                                 first_diff(want, got)), sha(want), sha(got)), states, nruns, w.same_second
    return None, states, nruns, w.same_second


def cache_expected(root, inputs):
    """Cache-disabled GIR for every combination of dependency editions."""
    out = {}
    for ed in itertools.product((0, 1), repeat=len(EDITABLE)):
        d = os.path.join(root, 'ref-%s' % ''.join(map(str, ed)))
        shutil.rmtree(d, ignore_errors=True)
        os.makedirs(d)
        for n in I.GENERATED:
            v = ed[EDITABLE.index(n)] if n in EDITABLE else 0
            I.write_atomic(os.path.join(d, n + '.gir'), I.dep_text(n, v))
        for n in ('GLib-2.0', 'GObject-2.0'):
            shutil.copy(os.path.join(scanrun.DEPS, n + '.gir'), os.path.join(d, n + '.gir'))
        for sub, rec in sorted(I.INCDIRS.items()):
            os.makedirs(os.path.join(d, sub))
            I.write_atomic(os.path.join(d, sub, 'Dep-1.0.gir'), I.incdep_text(rec))
        for i, inp in enumerate(inputs):
            res = I.execute(inp, use_cache=False,
                            include_paths=[os.path.join(d, x) for x in inp['opts'].get('include_dirs', [])] + [d])
            if res.error:
                raise HarnessBroken('cache reference run failed: %s' % res.error)
            out[(i, ed)] = observe(res)
    return out


def _work_cache(chunk):
    part = Part()
    idx, hists = chunk
    root = os.path.join(I.BUILD, 'cache', 'w%03d' % idx)
    inputs = [I.by_name(n) for n in CACHE_INPUTS]
    os.makedirs(root, exist_ok=True)
    expected = cache_expected(root, inputs)
    from giscanner import cachestore
    loads = []
    cviol = []
    orig = cachestore.CacheStore.load

    def load(self, filename):
        r = orig(self, filename)
        loads.append((os.path.basename(filename), r is not None))
        return r
    cachestore.CacheStore.load = load
    try:
        for hist in hists:
            del loads[:]
            problem, states, nruns, same = run_history(os.path.join(root, 'h'), hist, expected, inputs, loads)
            part.add(evaluations=nruns, traces_validated_against_impl=nruns, transitions=len(hist), histories=1,
                     stale_entries_within_the_same_second=same)
            for s in states:
                part.outcome('cache-state:%r' % (s,))
                part.nontrivial('cache:%r' % (s,))
            part.add(cache_hits=sum(1 for x in loads if x and x[1]), cache_misses=sum(1 for x in loads if x and not x[1]))
            if problem:
                text, want, got = problem
                cviol.append((hist, text, want, got))
                part.outcome('cache:DIFF')
        if hists:
            part.sample({'phase': 'cache', 'history': hists[len(hists) // 2]})
    finally:
        cachestore.CacheStore.load = orig
        shutil.rmtree(root, ignore_errors=True)
    r = part.result()
    r['cache_violations'] = cviol
    r['cache_states'] = sorted(set(o for o in part.outcomes if isinstance(o, str) and o.startswith('cache-state:')))
    return r


# ------------------------------------------------------------ P5: seeds ---
def _seed_main():
    """Entry point of the PYTHONHASHSEED subprocesses: sha of the GIR of every input."""
    I.ensure_deps()
    out = {}
    for inp in I.inputs():
        out[inp['name']] = sha(observe(I.execute(inp)))
    sys.stdout.write(json.dumps(out, sort_keys=True) + '\n')


def hashseed_start(seeds):
    env = dict(os.environ)
    env['PYTHONPATH'] = '%s:%s' % (ROOT, REPO)
    env['VERIF_REPO'] = REPO
    env['PYTHONDONTWRITEBYTECODE'] = '1'
    procs = []
    for s in seeds:
        e = dict(env)
        e['PYTHONHASHSEED'] = str(s)
        procs.append((s, subprocess.Popen([sys.executable, '-c', 'from vt.checks import c16; c16._seed_main()'],
                                          env=e, cwd=ROOT, stdout=subprocess.PIPE, stderr=subprocess.PIPE)))
    return procs


def hashseed_collect(procs):
    out = {}
    for s, p in procs:
        so, se = p.communicate()
        if p.returncode != 0:
            raise HarnessBroken('hash-seed subprocess %s failed: %s' % (s, se.decode()[-400:]))
        out[s] = json.loads(so.decode().strip().split('\n')[-1])
    return out


def hashseed_runs(seeds):
    return hashseed_collect(hashseed_start(seeds))


def _work_any(chunk):
    """One pool for all partitions (creating a pool is the expensive part on a busy machine)."""
    kind, payload = chunk
    r = {'choice': _work_choice, 'perm': _work_perm, 'cache': _work_cache}[kind](payload)
    r['kind'] = kind
    return r


# --------------------------------------------------------------------- run ---
def run(ctx):
    b = BOUNDS[ctx.tier]
    import time
    walls = {}
    last = [time.time()]

    cpus = {}
    lastc = [sum(os.times()[:4])]

    def phase(name):
        walls[name] = round(time.time() - last[0], 2)
        last[0] = time.time()
        c = sum(os.times()[:4])
        cpus[name] = round(c - lastc[0], 2)
        lastc[0] = c
        ctx.set(phase_wall_s=dict(walls), phase_cpu_s=dict(cpus))
    # developer knob (used for mutation experiments): C16_PHASES=choice,arrival,relation,cache,seeds
    only = set(x for x in os.environ.get('C16_PHASES', '').split(',') if x)
    if only:
        ctx.cap('C16_PHASES=%s (not the full check)' % ','.join(sorted(only)))

    def want(p):
        return not only or p in only
    nsel = choice.selftest()
    nmods, ncalls = static_scan()
    I.ensure_deps()
    inputs = I.inputs()
    names = [i['name'] for i in inputs]
    ctx.set(rule='E4: every iteration of every set created by the pipeline modules is a choice point (ChoiceSet bound '
                 'to the module-global name set; static scan + per-input object-graph and line-trace audit prove no '
                 'other set exists); all executions with <= %d non-default permutations (sets <= %d fully permuted), which '
                 'is every combination of the offered permutations. '
                 'Arrival orders: all C-admissible declaration orders displacing <= %d items (all orders for <= %d '
                 'items) with fixed and with re-assigned line numbers, all comment-block orders displacing <= %d '
                 '(all for <= %d), 16 block-to-file assignments x file orders. E2: every cache history of <= %d '
                 'operations ending in a run, on real files. Oracle: GIR bytes equal to the reference run (resp. to '
                 'the cache-disabled run). non-trivial = distinct (input, deviated sites) / permutation / cache state '
                 'in which the oracle compared bytes' % (b['dev'], b['full_upto'], b['decl_moved'], b['decl_full'], b['block_moved'],
                                                           b['block_full'], b['hist']),
            bounds=dict(b, inputs=len(inputs), choiceset_selftest_assertions=nsel, modules_scanned=nmods,
                        set_call_sites=ncalls))

    # ---- P1 audit + reference traces
    seeds = [1 + i * 977 for i in range(b['seeds'] if want('seeds') else 0)]
    seed_procs = hashseed_start(seeds)          # fresh interpreters run while the pool works
    audit = {}
    r = _work_audit(names)
    audit.update(r.pop('audit'))
    ctx.merge(r)
    for n in names:
        for x in audit[n]['notes']:
            if x not in STATIC_NOTES:
                STATIC_NOTES.append(x)
    phase('audit')
    refs = {n: audit[n]['xml'].encode('utf-8') for n in names}
    sizes = {n: [t[0] for t in audit[n]['trace']] for n in names}
    total_points = sum(len(v) for v in sizes.values())
    if total_points < 30 or sum(1 for n in names if sizes[n]) < (2 * len(names)) // 3:
        raise HarnessBroken('vacuous: only %d choice points with >= 2 elements over %d inputs' % (total_points, len(names)))
    sites = sorted(set('%s@%d' % (t[1], t[2]) for n in names for t in audit[n]['trace']))
    if len(sites) < 6:
        raise HarnessBroken('vacuous: choice points at only %d source sites: %r' % (len(sites), sites))
    if max(max(v) for v in sizes.values() if v) < 3:
        raise HarnessBroken('vacuous: no set with more than 2 elements was iterated')
    full_menu = b['dev'] >= max(len(v) for v in sizes.values())
    ctx.set(choice_exploration_covers_every_combination_of_offered_permutations=full_menu,
            choice_points={n: len(sizes[n]) for n in names}, choice_sites=sites,
            choice_executions_if_traces_stable={n: choice.count_bound(sizes[n], b['dev'], b['full_upto']) for n in names})

    # ---- P1 exploration, partitioned by (input, first deviated choice point)
    chunks = []
    for n in names:
        ks = list(range(len(sizes[n])))
        per = 1
        for i in range(0, len(ks), per):
            chunks.append((n, ks[i:i + per], b['dev'], b['full_upto']))
    work = [('choice', c) for c in chunks] if want('choice') else []

    # ---- P2 arrival orders
    chunks = []
    rejected = 0
    for inp in inputs:
        orders, rej, unspec = decl_orders(inp, b['decl_moved'], b['decl_full'])
        rejected += rej
        if unspec:
            chunks.append((inp['name'], 'decl-unspec', list(enumerate(unspec))))
        items = list(enumerate(orders))
        for mode in ('decl-fixed', 'decl-renum'):
            for sl in chunked(items, max(1, len(items) // 400)):
                chunks.append((inp['name'], mode, sl))
        bp = list(enumerate(small_perms(len(inp['blocks']), b['block_moved'], b['block_full'])))
        if bp:
            chunks.append((inp['name'], 'blocks', bp))
        chunks.append((inp['name'], 'blockfiles', list(enumerate(block_file_cases(inp)))))
        dc = list(enumerate(dump_cases(inp, b['block_moved'], b['block_full'])))
        if dc:
            chunks.append((inp['name'], 'dump', dc))
    ctx.set(inadmissible_declaration_orders_skipped=rejected)
    if want('arrival'):
        work += [('perm', c) for c in chunks]
    hists = cache_histories(ctx.tier, b['hist']) if want('cache') else []
    work += [('cache', (i, c)) for i, c in enumerate(chunked(hists, max(NCPU, 1) * 2))]
    pv = []
    cv = []
    cache_states = set()
    for r in pmap(_work_any, rotate(work, ctx.seed)):
        kind = r.pop('kind')
        if kind == 'perm':
            pv += r.pop('perm_violations')
        elif kind == 'cache':
            cache_states.update(r.pop('cache_states'))
            cv += r.pop('cache_violations')
        ctx.merge(r)
    # report only minimal failing histories: no shorter failing history is a subsequence of them
    def subseq(a, b):
        it = iter(b)
        return all(any(x == y for y in it) for x in a)
    cv.sort(key=lambda v: (len(v[0]), json.dumps(v[0])))
    minimal = []
    for hist, text, wsha, gsha in cv:
        if not any(len(m[0]) < len(hist) and subseq(m[0], hist) for m in minimal):
            minimal.append((hist, text, wsha, gsha))
    for hist, text, wsha, gsha in minimal:
        ctx.violation('cache:%s' % json.dumps(hist),
                      'with the cache enabled the GIR differs from the cache-disabled GIR: ' + text,
                      {'kind': 'cache', 'history': hist, 'expected_sha': wsha, 'observed_sha': gsha, 'detail': text})
    ctx.add(cache_histories_failing=len(cv))
    order_dependent = set()
    for key in [v[0] for v in ctx.violations] + list(ctx.known_hits):
        if key.startswith('choice:'):
            order_dependent.add(key.split(':')[1])
    for n in names:
        if audit[n]['native_differs'] and n not in order_dependent and want('choice'):
            raise HarnessBroken('installing ChoiceSet changed the output of %s but no explored permutation does' % n)
    phase('explore')
    first = {}
    for name, mode, rank, p, d in sorted(pv, key=lambda v: (v[0], v[1], v[2])):
        first.setdefault((name, mode), (p, d))
    for (name, mode), (p, d) in sorted(first.items()):
        if mode == 'blockfiles':
            case = {'kind': mode, 'input': name, 'block_files': p[0], 'block_order': p[1]}
            what = 'blocks in files %s supplied in order %s' % (p[0], p[1])
        elif mode == 'dump':
            case = {'kind': mode, 'input': name, 'kid_orders': p[0], 'top_order': p[1]}
            what = 'children order %s, top-level order %s' % (p[0], p[1])
        else:
            case = {'kind': mode, 'input': name, 'order': list(p)}
            what = _perm_desc(p)
        case['first_difference'] = d
        ctx.violation('%s:%s' % (mode, name), '%s: input %r, %s: %s' % (MODE_TEXT[mode], name, what, d), case)

    # ---- P3 sibling order is one fixed function of kind and name; declaration order of members
    rel = {}
    for inp in (inputs if want('relation') else []):
        if inp.get('expect_error'):
            continue
        root = sibling_relation(refs[inp['name']], rel, inp['name'])
        problems, checked = declared_order_problems(inp, root)
        ctx.add(traces_validated_against_impl=1, declared_order_lists_checked=checked)
        text = refs[inp['name']].decode('utf-8')
        for e in inp.get('expect', []):
            ctx.nontrivial('precedence:%s:%s' % (inp['name'], e))
            if e not in text or any(r in text for r in inp.get('reject', [])):
                ctx.violation('include-precedence:%s' % inp['name'],
                              'with include paths %r the dependency found in the FIRST directory must be used: expected %s in '
                              'the GIR' % (inp['opts'].get('include_dirs'), e),
                              {'kind': 'include-precedence', 'input': inp['name']})
        for pr in problems:
            ctx.violation('declared-order:%s:%s' % (inp['name'], pr.split(':')[0]),
                          'parameters/fields/members are not in declaration order: ' + pr,
                          {'kind': 'declared-order', 'input': inp['name'], 'problem': pr})
    contradictions = 0
    for (ptag, a, bb), where in sorted(rel.items()):
        if (ptag, bb, a) in rel and a < bb:
            contradictions += 1
            ctx.violation('sibling-order:%s:%s:%s' % (ptag, a, bb),
                          'under <%s>, %s comes before %s in input %r but after it in input %r: the order of siblings '
                          'is not a fixed function of their names and kinds' % (ptag, a, bb, where, rel[(ptag, bb, a)]),
                          {'kind': 'sibling-order', 'parent': ptag, 'a': list(a), 'b': list(bb),
                           'inputs': [where, rel[(ptag, bb, a)]]})
    ctx.add(sibling_pairs_related=len(rel))
    if len(rel) < 300 and want('relation'):
        raise HarnessBroken('vacuous sibling relation: %d pairs' % len(rel))

    phase('relation')
    # ---- P4 cache histories
    kinds = set()
    for st in cache_states:
        for k in ('none', 'fresh', 'stale', 'corrupt'):
            if "'%s'" % k in st:
                kinds.add(k)
    if want('cache') and ctx.cov.get('stale_entries_within_the_same_second', 0) < 2:
        raise HarnessBroken('vacuous: no history edits a dependency within the same second as its cache entry')
    if kinds != {'none', 'fresh', 'stale', 'corrupt'} and want('cache'):
        raise HarnessBroken('cache histories did not reach every entry state: %r' % sorted(kinds))
    if ctx.cov.get('cache_hits', 0) == 0 and not ctx.violations:
        ctx.assumptions.append('NOTE: no cache hit was observed in any history (the cache never served an entry)')
    ctx.set(cache_model_states=len(cache_states), cache_histories=len(hists), cache_menu=len(cache_menu(ctx.tier)))
    shutil.rmtree(os.path.join(I.BUILD, 'cache'), ignore_errors=True)

    phase('cache')
    # ---- P5 real hash seeds
    got = hashseed_collect(seed_procs)
    confirmed = set()
    for s in seeds:
        ctx.add(evaluations=len(names), traces_validated_against_impl=len(names))
        for n in names:
            if got[s].get(n) != audit[n]['sha'] and n in order_dependent:
                confirmed.add(n)        # same root cause as the choice violation already reported
            elif got[s].get(n) != audit[n]['sha']:
                ctx.violation('hashseed:%s' % n, 'input %r: PYTHONHASHSEED=%d gives GIR %s, PYTHONHASHSEED=%s gave %s'
                              % (n, s, got[s].get(n), os.environ.get('PYTHONHASHSEED'), audit[n]['sha']),
                              {'kind': 'hashseed', 'input': n, 'seed': s})
            else:
                ctx.outcome('seed-same:%s' % n)
    ctx.set(hash_seeds=seeds, order_dependence_confirmed_by_real_hash_seeds=sorted(confirmed))
    phase('seeds')
    for n in names[:3]:
        ctx.sample({'phase': 'input', 'name': n, 'c': I.fake.c_of(I.by_name(n)['decls'])[:500],
                    'comments': I.by_name(n)['blocks'][:2]})
    ctx.assumptions += [
        'quantification is over symbol trees and comment texts (what the C lexer hands to Python), see DESIGN.md 1.1',
        'a permutation of declarations is considered only if every typedef name defined in the input is defined before it is used (valid C)',
        'when several typedefs name one struct/union tag the first typedef owns the structure (documented in transformer.py): orders that change which typedef comes first are executed but classified UNSPECIFIED; the position of the body among them is MUST-equal',
        'comment blocks have pairwise distinct identifiers ("last block wins" for duplicates is documented and order-dependent by design)',
        'the order of diagnostics on stderr is not part of the statement: runs whose GIR is identical but whose warnings are reordered are counted as unspecified',
        'a cache entry is corrupt if pickle.load cannot rebuild a parser from it (binary garbage, text, empty file, truncated pickle, pickle of a class that cannot be imported); an entry that unpickles to a foreign object is outside the alphabet',
        'cache timestamps use a logical clock (mtimes set in nanoseconds by the harness after each operation in event order, 0.25 s apart from a non-integer base; two events never share a timestamp)',
        'vt/choice.py, vt/scan/fake.py (stub C scanner module) and the miniature/generated dependency GIRs are trusted',
    ]
    if len(ctx._outcomes) < 8 and not only:
        raise HarnessBroken('vacuous exploration: %d outcomes' % len(ctx._outcomes))
    if STATIC_NOTES:
        ctx.assumptions += ['OPEN PROOF OBLIGATION: ' + x for x in STATIC_NOTES]
        ctx.cap('static proof obligations failed')
        if not ctx.violations and not ctx.known_hits:
            raise HarnessBroken(' | '.join(STATIC_NOTES))


# ------------------------------------------------------------------ replay ---
def replay(ctx, case):
    I.ensure_deps()
    kind = case['kind']
    if kind == 'cache':
        inputs = [I.by_name(n) for n in CACHE_INPUTS]
        root = os.path.join(I.BUILD, 'cache', 'replay')
        os.makedirs(root, exist_ok=True)
        try:
            expected = cache_expected(root, inputs)
            hist = [tuple(o) for o in case['history']]
            problem, states, nruns, same = run_history(os.path.join(root, 'h'), hist, expected, inputs)
        finally:
            shutil.rmtree(root, ignore_errors=True)
        print('history:', hist)
        print('cache states before each run:', states)
        print('edits within the same whole second as the entry they invalidate:', same)
        print('result:', problem[0] if problem else 'every run equals the cache-disabled GIR')
        return problem is None
    if kind == 'include-precedence':
        inp = I.by_name(case['input'])
        text = observe(I.execute(inp)).decode('utf-8')
        print('include paths:', inp['opts'].get('include_dirs'), {d: I.INCDIRS[d] for d in inp['opts'].get('include_dirs')})
        print('expected', inp['expect'], [e in text for e in inp['expect']], 'rejected', inp['reject'],
              [e in text for e in inp['reject']])
        return all(e in text for e in inp['expect']) and not any(e in text for e in inp['reject'])
    if kind in ('sibling-order', 'declared-order'):
        rel = {}
        ok = True
        for inp in I.inputs():
            xml = observe(I.execute(inp))
            root = sibling_relation(xml, rel, inp['name'])
            if kind == 'declared-order' and inp['name'] == case['input']:
                problems, _ = declared_order_problems(inp, root)
                print('\n'.join(problems) or 'declaration order respected')
                ok = not problems
        if kind == 'sibling-order':
            a, b = (case['parent'], tuple(case['a']), tuple(case['b'])), (case['parent'], tuple(case['b']), tuple(case['a']))
            print('%s before %s: %s;  reverse: %s' % (case['a'], case['b'], rel.get(a), rel.get(b)))
            ok = not (a in rel and b in rel)
        return ok
    inp = I.by_name(case['input'])
    print('input %r:' % inp['name'])
    print(I.fake.c_of(inp['decls']))
    print('options:', inp['opts'])
    if kind == 'hashseed':
        seeds = sorted(set([0, case['seed']] + list(range(1, 17))))
        got = hashseed_runs(seeds)
        shas = {}
        for s in seeds:
            shas.setdefault(got[s][inp['name']], []).append(s)
        print('GIR sha by PYTHONHASHSEED:', shas)
        return len(shas) == 1
    if kind == 'choice':
        script = script_unjson(case['script'])
        choice.install(pipeline_modules())
        try:
            ref_res, ref_trace = scripted(inp, {})
            res, trace = scripted(inp, script)
        finally:
            choice.uninstall()
        for k in sorted(script):
            print('choice point %d at %s (line %d): set of %d elements iterated in order %r instead of insertion order' % (
                k, trace[k][1], trace[k][2], trace[k][0], script[k]))
        a, b = observe(ref_res), observe(res)
        print('reference %s, permuted %s: %s' % (sha(a), sha(b), first_diff(a, b)))
        # the same on the unmodified interpreter: does a real hash seed produce both outputs?
        got = hashseed_runs(list(range(0, 24)))
        shas = {}
        for s, d in sorted(got.items()):
            shas.setdefault(d[inp['name']], []).append(s)
        print('GIR sha by real PYTHONHASHSEED (no ChoiceSet involved):', shas)
        return a == b
    if kind in ('decl-fixed', 'decl-renum', 'blocks', 'decl-unspec'):
        ref = observe(I.execute(inp))
        p = case['order']
        if kind == 'decl-unspec':
            got = observe(I.execute(inp, decl_order=p))
            ref = observe(I.execute(inp, decl_order=p))
            if got.startswith(b'ERROR: '):
                ref = b''
        elif kind == 'decl-fixed':
            got = observe(I.execute(inp, decl_order=p))
        elif kind == 'decl-renum':
            got = blank_lines(observe(I.execute(inp, decl_order=p, renumber=True)))
            ref = blank_lines(ref)
        else:
            got = observe(I.execute(inp, block_order=p))
        if kind != 'blocks':
            print('declarations in arrival order:')
            print(I.fake.c_of([inp['decls'][i] for i in p]))
        print(_perm_desc(p))
        print('result:', first_diff(ref, got))
        return ref == got
    if kind == 'dump':
        ref = observe(I.execute(inp))
        got = observe(I.execute(inp, kid_orders=case['kid_orders'], top_order=case['top_order']))
        for g, o in sorted(case['kid_orders'].items()):
            print('dump element of %s with children in order:' % g)
            print('  ' + I.dump_text(inp['dump'][g], o))
        print('top-level order of the dump:', case['top_order'])
        print('result:', first_diff(ref, got))
        return ref == got
    if kind == 'blockfiles':
        base = observe(I.execute(inp, block_files=case['block_files']))
        got = observe(I.execute(inp, block_files=case['block_files'], block_order=case['block_order']))
        print('blocks in files %s, supplied in order %s' % (case['block_files'], case['block_order']))
        print('result:', first_diff(base, got))
        return base == got
    raise HarnessBroken('unknown replay kind %r' % kind)
