"""C03 - identifier-level annotations and tags land on the right GIR element, and only on it.

Bounded-exhaustive generation-tree search (E1).  A fixed namespace skeleton
(vt/scan/c03_skel.py) holds one of each documentable element.  A case is a set of GTK-Doc
comment blocks, each naming an element (or a near-miss name) and carrying identifier
annotations / tags from a fixed menu.  Every case is run through the real scanner pipeline;
the annotated GIR is compared, element by element and attribute by attribute, with the GIR of
the un-annotated skeleton.  The reference model (vt/scan/c03_model.py, written from the
property statement and giannotations.rst) says which (element, field) MUST have which value,
which MAY change (UNSPECIFIED) and everything else MUST be unchanged (frame).

quick    : every (element, item) of the full menu; every (near-miss name, item); the named
           competition scenarios (rename-to fan-in / chains / cycles, (virtual SLOT) incl. missing
           slots and two claimers, vfunc with its own block vs. the invoker's block)
thorough : + every unordered pair of (element, item) of the reduced per-kind menus on distinct
           elements
"""
import itertools
import json

from vt.core import Part, pmap, chunked, rotate, HarnessBroken
from vt.scan import girread
from vt.scan import c03_skel as skel
from vt.scan import c03_model as model
from vt.scan.c03_skel import ELEMENTS, FN, NEAR_MISS

LEVEL = 'model_checking'

ID2EL = {e['id']: e for e in ELEMENTS.values()}


# ------------------------------------------------------------------ one case ---
def kind_of(i, va, vb):
    if i in ID2EL:
        return ID2EL[i]['kind']
    for v in (va, vb):
        if v and i in v:
            return v[i][0]['tag']
    return '?'


def case_summary(case):
    parts = []
    for b in case['blocks']:
        e = ELEMENTS.get(b['name'])
        who = e['kind'] if e else 'nearmiss:' + b['name']
        for n, a in b['items']:
            parts.append('%s@%s' % (n, who))
    return '+'.join(sorted(parts))


def evaluate(case):
    """Run one case on the implementation and compare with the model.
    Returns dict(viol=[(key, desc)], unspec=n, must=n, outcome=..., delta=..., error=...)"""
    xmlb, vb, flatb = skel.baseline()
    res = skel.scan(model.render(case))
    out = {'viol': [], 'unspec': 0, 'must': 0, 'outcome': None, 'delta': {}, 'error': None}
    if res.error or res.xml is None:
        line = (res.error or 'no output').strip().splitlines()[0]
        out['error'] = res.error
        out['outcome'] = 'crash:' + line
        out['viol'].append(('crash|' + line, 'the scanner aborted instead of producing GIR: %s' % line))
        return out
    root = girread.parse(res.xml)
    va = skel.view(res.xml, root)
    fvb = skel.baseline_fields()
    fva = skel.all_fields(va)
    ex = model.expect(case, vb, va, fva, fvb)
    d = skel.delta(fvb, fva)
    out['delta'] = d

    def actual(i, f):
        return fva[i].get(f) if i in fva else None

    own_vf = {}
    for b in case['blocks']:
        e = ELEMENTS.get(b['name'])
        if e and e['kind'] == 'vfunc':
            how = []
            if e['invoker_fn'] and any(x['name'] == e['invoker_fn'] for x in case['blocks']):
                how.append('by-name')
            for x in case['blocks']:
                xe = ELEMENTS.get(x['name'])
                if xe and xe['kind'] in FN and xe['cls'] == e['cls'] and ['virtual', e['slot']] in [list(t) for t in x['items']]:
                    how.append('virtual')
            if how:
                own_vf[e['id']] = '+'.join(sorted(set(how)))

    def vkey(default, i):
        if i in own_vf:
            return 'vfunc-own-block-also-gets-invoker-block|' + own_vf[i]
        return default

    for (i, f) in sorted(ex.must):
        vals, label = ex.must[(i, f)]
        if ex.allowed(i, f):
            continue                 # another block of the case makes this field UNSPECIFIED
        out['must'] += 1
        got = actual(i, f)
        if got not in vals:
            k = kind_of(i, va, vb)
            want = sorted(vals, key=repr)
            out['viol'].append((vkey('must|%s|%s|%s' % (label, k, f), i),
                                '%s %s: expected %s, GIR has %r (baseline %r)'
                                % (i, f, want[0] if len(want) == 1 else 'one of %r' % (want,), got,
                                   fvb[i].get(f) if i in fvb else None)))
    for (i, f) in sorted(ex.mustnot):
        vals, label = ex.mustnot[(i, f)]
        out['must'] += 1
        got = actual(i, f)
        if got is not None and got in vals:
            out['viol'].append(('mustnot|%s|%s|%s' % (label, kind_of(i, va, vb), f),
                                '%s %s is %r, which contradicts an explicit annotation on another element of the case'
                                % (i, f, got)))
    summ = None
    for (i, f) in sorted(d):
        if ex.allowed(i, f):
            out['unspec'] += 1
            continue
        if (i, f) in ex.must:
            continue
        if summ is None:
            summ = case_summary(case)
        k = kind_of(i, va, vb)
        out['viol'].append((vkey('frame|%s|%s|%s' % (summ, k, f), i),
                            '%s %s changed %r -> %r although no block documents it' % ((i, f) + d[(i, f)])))
    if ex.warn:
        base_w = skel.baseline_warnings()
        neww = [w['text'] for w in res.warnings() if w['text'] not in base_w]
        out['must'] += 1
        if not neww:
            out['viol'].append(('must|role-warning|' + case_summary(case),
                                'no diagnostic although %s' % '; '.join(ex.warn)))
    for p in model.rename_consistency(ex, fva):
        out['viol'].append(('rename-consistency|' + model.rename_shape(ex.renames), p))
    if not ex.must and not ex.may:
        # nothing may change at all: cross-check with the shared attribute-level diff
        fd = girread.diff(flatb, girread.flat(root))
        if fd and not out['viol']:
            k = sorted(fd)[0]
            out['viol'].append(('frame|%s|flat' % case_summary(case), 'flat diff not empty: %s %r' % (k, fd[k])))
    if any(b.get('split') for b in case['blocks']):
        # MUST: same GIR as with all annotations on the identifier line
        flat_case = {'blocks': [{k: v for k, v in b.items() if k != 'split'} for b in case['blocks']]}
        res1 = skel.scan(model.render(flat_case))
        out['must'] += 1
        if res1.xml != res.xml:
            fd = girread.diff(girread.flat(girread.parse(res1.xml)), girread.flat(root)) if res1.xml else {}
            k = sorted(fd)[0] if fd else None
            out['viol'].append(('layout|identifier-annotations-on-continuation-lines|%s' % case_summary(case),
                                'GIR differs from the one-line layout of the same annotations: %s %r'
                                % (k, fd.get(k))))
    out['outcome'] = tuple(sorted({(kind_of(i, va, vb), f) for (i, f) in d}))
    return out


# ------------------------------------------------------------------ enumeration ---
def single(name, item):
    return {'blocks': [{'name': name, 'items': [list(item)]}]}


REDUCED_GENERIC = [['skip', None], ['Since', '1.2'], ['attributes', 'my.key=a=b']]
REDUCED = {
    'fn': [['rename-to', 'foo_func'], ['rename-to', 'foo_other'], ['constructor', None], ['method', None],
           ['virtual', 'vmeth'], ['finish-func', 'foo_other'], ['set-property', 'prop-two']],
    'class': [['ref-func', 'foo_obj_dup']], 'interface': [], 'record': [['foreign', None], ['copy-func', 'foo_rec_dup']],
    'boxed': [['foreign', None], ['free-func', 'foo_rec_free']], 'gtstruct': [['foreign', None]],
    'union': [['copy-func', 'foo_rec_dup']], 'constant': [['value', '7']],
    'property': [['transfer', 'full'], ['type', 'utf8'], ['setter', 'meth'], ['default-value', '5']],
    'signal': [['emitter', 'meth']], 'vfunc': [['sync-func', 'foo_other'], ['desc', 'Some text.']],
    'field': [['desc', 'Some text.']], 'cbfield': [['Stability', 'Unstable']],
}


def reduced_items():
    out = []
    for name in sorted(ELEMENTS):
        e = ELEMENTS[name]
        if e.get('fam'):
            # members of an async family: the async annotations (explicit, non-heuristic targets) and skip
            menu = [['skip', None], ['finish-func', 'foo_other'], ['sync-func', 'load_alt'], ['async-func', 'foo_other']]
        else:
            menu = list(REDUCED_GENERIC) + REDUCED.get('fn' if e['kind'] in FN else e['kind'], [])
        for it in menu:
            out.append((name, it))
    return out


RENAME_SET = ['foo_func', 'foo_func_full', 'foo_other', 'foo_obj_meth', 'foo_obj_invoke']
G_OWN = [['Since', '1.2'], ['skip', None], ['attributes', 'my.key=val'], ['Deprecated', '1.4: Use other'],
         ['Stability', 'Unstable'], ['desc', 'Some text.'], ['finish-func', 'foo_other']]
G_INV = [['Since', '2.0'], ['skip', None], ['attributes', 'other.key=v2'], ['Deprecated', 'Use other'],
         ['Stability', 'Private: internal'], ['desc', 'Other text.'], ['sync-func', 'foo_other']]


def competition_cases():
    out = []
    # rename-to: every two relations with distinct sources (fan-in, chains, cycles, independent)
    rel = [(s, t) for s in RENAME_SET for t in RENAME_SET if s != t]
    for (s1, t1), (s2, t2) in itertools.combinations(rel, 2):
        if s1 == s2:
            continue
        out.append({'blocks': [{'name': s1, 'items': [['rename-to', t1]]}, {'name': s2, 'items': [['rename-to', t2]]}]})
    # three-link chains / fan-in over the plain functions
    for a, b, c in itertools.permutations(['foo_func', 'foo_func_full', 'foo_other'], 3):
        out.append({'blocks': [{'name': a, 'items': [['rename-to', b]]}, {'name': b, 'items': [['rename-to', c]]},
                               {'name': c, 'items': [['rename-to', a]]}]})
    # (virtual SLOT): existing / missing slots, every owner kind, with something to inherit
    fns = ['foo_obj_meth', 'foo_obj_invoke', 'foo_obj_do_thing', 'foo_obj_new', 'foo_obj_create', 'foo_rec_get_x',
           'foo_rec_make', 'foo_uni_peek', 'foo_iface_ivirt', 'foo_func']
    for f in fns:
        for slot in ['vmeth', 'do_thing', 'vplain', 'nosuch', 'ivirt']:
            for extra in [None] + G_INV:
                items = [['virtual', slot]] + ([extra] if extra else [])
                out.append({'blocks': [{'name': f, 'items': items}]})
    # two methods claim the same slot
    for slot in ['vmeth', 'do_thing', 'vplain']:
        for f, g in itertools.combinations(['foo_obj_meth', 'foo_obj_invoke', 'foo_obj_do_thing'], 2):
            for extra in [None, ['Since', '2.0']]:
                out.append({'blocks': [{'name': f, 'items': [['virtual', slot]] + ([extra] if extra else [])},
                                       {'name': g, 'items': [['virtual', slot]]}]})
    # a virtual method with a block of its own vs. the block of its invoker
    for vf, inv, via in [('FooObjClass::do_thing', 'foo_obj_do_thing', None),
                         ('FooIfaceInterface::ivirt', 'foo_iface_ivirt', None),
                         ('FooObjClass::vmeth', 'foo_obj_invoke', ['virtual', 'vmeth'])]:
        for own in G_OWN:
            for other in G_INV:
                out.append({'blocks': [{'name': vf, 'items': [own]},
                                       {'name': inv, 'items': ([via] if via else []) + [other]}]})
    return out


def layout_cases():
    """identifier annotations split over 2 and 3 lines (one per continuation line)"""
    out = []
    A = ['attributes', 'my.key=val']
    for name in sorted(ELEMENTS):
        e = ELEMENTS[name]
        combos = [[['skip', None], A], [A, ['skip', None]]]
        if e['kind'] in FN:
            combos += [[A, ['rename-to', 'foo_other']], [['skip', None], A, ['rename-to', 'foo_other']],
                       [['constructor', None], A], [['method', None], A], [['finish-func', 'foo_other'], A, ['skip', None]]]
        elif e['kind'] in ('record', 'boxed', 'gtstruct', 'union'):
            combos += [[['foreign', None], ['copy-func', 'foo_rec_dup'], A]]
        elif e['kind'] == 'class':
            combos += [[['ref-func', 'foo_obj_dup'], ['unref-func', 'foo_obj_meth'], A]]
        elif e['kind'] == 'constant':
            combos += [[['value', '7'], A], [A, ['value', '7'], ['skip', None]]]
        elif e['kind'] == 'property':
            combos += [[['transfer', 'full'], ['default-value', '5'], A], [['type', 'utf8'], A]]
        elif e['kind'] == 'signal':
            combos += [[['emitter', 'meth'], A]]
        for items in combos:
            if name == 'foo_other' and ['rename-to', 'foo_other'] in items:
                continue
            out.append({'blocks': [{'name': name, 'items': [list(i) for i in items], 'split': True}]})
            out.append({'blocks': [{'name': name, 'items': [list(i) for i in items], 'split': 'bare'}]})
        # a single annotation on the line after a bare identifier line
        out.append({'blocks': [{'name': name, 'items': [['skip', None]], 'split': 'bare'}]})
    return out


SECTION_OF = {'FooObj': 'fooobj', 'FooSub': 'foosub', 'FooHidden': 'foohidden', 'FooIface': 'fooiface',
              'FooObjClass': 'fooobjclass', 'FooIfaceInterface': 'fooifaceinterface', 'FooRec': 'foorec',
              'FooPlain': 'fooplain', 'FooUni': 'foouni', 'FooEnum': 'fooenum', 'FooFlags': 'fooflags',
              'FooCallback': 'foocallback', 'FooAlias': 'fooalias'}


def section_cases():
    """a type's own annotated block next to a SECTION:<lowercase type name> block that carries a description"""
    out = []
    for t in sorted(SECTION_OF):
        sec = {'name': 'SECTION:' + SECTION_OF[t], 'items': [['desc', 'Section text.']]}
        out.append({'blocks': [sec]})
        for it in (['skip', None], ['foreign', None], ['attributes', 'my.key=val'], ['Since', '1.2'],
                   ['Deprecated', '1.4: Use other'], ['copy-func', 'foo_rec_dup'], ['ref-func', 'foo_obj_dup']):
            out.append({'blocks': [{'name': t, 'items': [list(it)]}, sec]})
            out.append({'blocks': [sec, {'name': t, 'items': [list(it)]}]})
    return out


def quick_cases():
    out = layout_cases() + section_cases()
    for name in sorted(ELEMENTS):
        for it in model.FULL_MENU:
            out.append(single(name, it))
    for name, _ in NEAR_MISS:
        for it in model.NEAR_MENU:
            out.append(single(name, it))
    out += competition_cases()
    return out


def pair_cases():
    items = reduced_items()
    out = []
    for (n1, i1), (n2, i2) in itertools.combinations(items, 2):
        if n1 == n2:
            continue
        out.append({'blocks': [{'name': n1, 'items': [list(i1)]}, {'name': n2, 'items': [list(i2)]}]})
    return out


def _work(chunk):
    part = Part()
    best = {}
    for n, case in enumerate(chunk):
        r = evaluate(case)
        nblocks = len(case['blocks'])
        part.add(evaluations=2 if any(b.get('split') for b in case['blocks']) else 1, states=1, transitions=sum(len(b['items']) for b in case['blocks']),
                 traces_validated_against_impl=1, unspecified=r['unspec'])
        part.outcome(r['outcome'])
        if r['must'] or all(b['name'] not in ELEMENTS for b in case['blocks']) or not r['delta']:
            part.nontrivial(json.dumps(case, sort_keys=True))
        if n % 97 == 0:
            part.sample({'comments': model.c_text(case), 'changed': ['%s %s' % k for k in sorted(r['delta'])][:8]})
        for key, desc in r['viol']:
            cand = (nblocks, len(json.dumps(case)), json.dumps(case, sort_keys=True), desc)
            if key not in best or cand < best[key]:
                best[key] = cand
    res = part.result()
    res['c03v'] = best
    return res


def _run_cases(ctx, cases, best):
    chunks = rotate(chunked(cases, 128), ctx.seed)
    for r in pmap(_work, chunks):
        for key, cand in r.pop('c03v').items():
            if key not in best or cand < best[key]:
                best[key] = cand
        ctx.merge(r)


def run(ctx):
    n_el = skel.check_tables()
    xmlb, vb, flatb = skel.baseline()
    cases = quick_cases()
    nq = len(cases)
    npairs = 0
    if ctx.tier == 'thorough':
        pc = pair_cases()
        npairs = len(pc)
        cases += pc
    ctx.set(rule='skeleton of %d documentable elements (functions, methods, constructors, static functions, macro, '
                 'classes incl. one known only by GType, interface, class/interface structs with virtual slots, boxed '
                 'and plain record, union, enum, bitfield, members, constants, alias, callback, properties, signals, '
                 'fields incl. function-pointer fields, virtual methods with and without invoker); every case = a set '
                 'of comment blocks; differential oracle with frame on the id-keyed attribute view of the GIR. '
                 'non-trivial = case in which the model fixed at least one value (MUST) or demanded an empty diff'
                 % n_el,
            bounds={'elements': n_el, 'menu_items': len(model.FULL_MENU), 'near_miss_names': len(NEAR_MISS),
                    'quick_cases': nq, 'pair_cases': npairs, 'reduced_items': len(reduced_items()),
                    'blocks_per_case_max': 3})
    from vt.scan import fake
    ctx.set(skeleton={'c': fake.c_of(skel.decls()), 'dump': skel.DUMP, 'includes': skel.INCLUDES})
    best = {}
    _run_cases(ctx, cases, best)
    ctx.add(evaluations=1)          # the baseline scan
    for key in sorted(best):
        nb, _, cj, desc = best[key]
        case = json.loads(cj)
        ctx.violation(key, desc, {'case': case, 'comments': model.c_text(case), 'problem': desc})
    ctx.assumptions += [
        'the quantifier "all namespaces" is instantiated by one fixed skeleton namespace (Foo) holding one of each '
        'documentable element; symbol trees stand in for C text (the C lexer/parser is outside the anchors)',
        'class / interface / boxed data come from a generated runtime dump in the format gdump.c prints',
        'side effects the statement does not fix are UNSPECIFIED: name/signature of a function whose role changes, '
        'introspectable=0 spreading to users of a skipped type (C05), glib:set/get-property of methods when a property '
        'names its accessor, keys without value in (attributes), SECTION: blocks, annotations on kinds the docs do not '
        'list (foreign on union/class, ref-func on records, finish-func on callbacks, ...), competing rename-to '
        'relations beyond mutual consistency, (constructor) on a function returning a plain C struct',
        'warnings are not compared (wording is not part of the property); a crash of the pipeline is a violation',
    ]
    if len(ctx._outcomes) < 20 or len(ctx._nontrivial) < 100:
        raise HarnessBroken('vacuous exploration: %d outcomes, %d non-trivial' % (len(ctx._outcomes), len(ctx._nontrivial)))


def replay(ctx, obj):
    case = obj['case'] if 'case' in obj else obj
    skel.check_tables()
    print(model.c_text(case))
    r = evaluate(case)
    if r['error']:
        print(r['error'])
    for k in sorted(r['delta']):
        print('  changed: %s %s: %r -> %r' % (k + r['delta'][k]))
    for key, desc in r['viol']:
        print('  VIOLATES [%s]: %s' % (key, desc))
    print('must-values checked: %d, unspecified changes tolerated: %d' % (r['must'], r['unspec']))
    return not r['viol']
