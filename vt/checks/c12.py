"""C12 - runtime GObject type data is merged faithfully into the GIR.

E1 bounded-exhaustive exploration.  A case is a pair (scanned C declarations, runtime type
registry of the library).  The registry is printed by vt/scan/c12_gdump.py in exactly the
format girepository/gdump.c writes, in answer to the get-type / error-quark function list
the real scanner asks for; the complete real pipeline (Transformer -> GDumpParser ->
MainTransformer -> IntrospectablePass -> GIRWriter) runs on it and the emitted GIR is read
back with ElementTree and compared, fact by fact, with the reference model of the property
statement (vt/scan/c12_oracle.py).  Families and bounds are in vt/scan/c12_gen.py.
"""
import hashlib
import os

from vt.core import Part, pmap, rotate, HarnessBroken
from vt.scan import fake                           # installs the stub C module
from vt.scan import run as scanrun
from vt.scan import c12_gen, c12_oracle, c12_conf

LEVEL = 'model_checking'

NCHUNK = 64


def execute(scn):
    """Run the real scanner on the scenario.  -> (Result, asked_get_types, asked_quarks, dump_text)"""
    facts, world = c12_oracle.expected(scn)
    decls = c12_oracle.build_decls(scn['decls'])
    seen = {}

    def dump(get_types, quarks):
        seen['gt'] = list(get_types)
        seen['q'] = list(quarks)
        text = world.rt.dump(get_types, quarks)
        for old, new in scn.get('patch', ()):
            text = text.replace(old, new)
        seen['dump'] = text
        return text

    res = scanrun.scan(decls, includes=scn['includes'], dump=dump)
    return res, facts, world, seen, decls


def check_case(scn):
    """-> dict(verdict 'ok'|'bad'|'unspec', problems [(key, expected, observed)], nm, nu, outcome, merged)"""
    res, facts, world, seen, decls = execute(scn)
    all_unspec = '*' in scn.get('unspec', ())
    out = {'problems': [], 'nm': 0, 'nu': 0, 'outcome': None, 'merged': 0, 'verdict': 'ok',
           'c': None, 'dump': seen.get('dump')}
    if 'gt' in seen:
        # what the scanner hands to the dumper must be exactly the get-type / error-quark functions
        # of the headers: anything else makes the real dumper fail or lose a type
        if sorted(seen['gt']) != sorted(world.get_type_funcs) and not all_unspec:
            out['problems'].append(('request:get-type', sorted(world.get_type_funcs), sorted(seen['gt'])))
        if sorted(seen['q']) != sorted(world.quark_funcs) and not all_unspec:
            out['problems'].append(('request:error-quark', sorted(world.quark_funcs), sorted(seen['q'])))
    if res.error:
        if all_unspec:
            out['verdict'] = 'unspec'
            out['nu'] = len(facts)
            out['outcome'] = ('error', res.error.split(':')[0])
            return out
        if res.error.startswith('DumpFailure'):
            # the scanner asked the dumper for a function the library does not export (the real
            # dumper fails: "Failed to find symbol"); if it asked exactly what the headers declare
            # the scenario generator is wrong
            if not out['problems']:
                raise HarnessBroken('scenario lacks a symbol the headers declare: %s' % res.error)
            out['verdict'] = 'bad'
            return out
        out['problems'].append(('pipeline', 'a GIR', res.error))
        out['verdict'] = 'bad'
        return out
    try:
        O = c12_oracle.observe(res.xml)
    except Exception as e:      # not well-formed GIR
        out['problems'].append(('gir', 'well-formed GIR', '%s: %s' % (type(e).__name__, e)))
        out['verdict'] = 'bad'
        return out
    bad, nm, nu = c12_oracle.compare(facts, O)
    out['problems'].extend(bad)
    out['nm'], out['nu'] = nm, nu
    out['merged'] = seen.get('dump', '').count('<property ') + seen.get('dump', '').count('<signal ') + \
        seen.get('dump', '').count(' get-type="') + seen.get('dump', '').count('<error-quark ')
    if out['problems']:
        out['verdict'] = 'bad'
    elif nm == 0:
        out['verdict'] = 'unspec'
    out['outcome'] = summarize(O)
    return out


def summarize(O):
    """A compact outcome vector of one execution (for the vacuity guard)."""
    items = []
    for k in sorted(O):
        if k.startswith('#'):
            continue
        if k.endswith(('@parent', '@abstract', '@final', '@when', '@glib:error-domain', '@glib:type-struct',
                       '/implements', '/prerequisites', '/vfuncs', '@glib:fundamental')) or \
                k.endswith(('@readable', '@writable', '@construct', '@construct-only', '@no-recurse',
                            '@detailed', '@action', '@no-hooks', '@type', '@return', '@default-value')):
            v = O[k]
            if v not in (None, False, []):
                items.append((k, repr(v)))
    return hashlib.sha1(repr(items).encode()).hexdigest()[:16]


EMPTY_DEFAULT_KEY = 'property-default-value:empty-string-dropped'


def canonical_probes():
    lib = c12_gen.Lib(c12_gen.GOBJ)
    lib.klass('FooObj', 'GObject', class_members=[],
              props=[dict(name='label', type='gchararray', flags=3, default=['s', ''])])
    yield EMPTY_DEFAULT_KEY, lib.scn


def _family(name):
    for f in c12_gen.FAMILIES:
        if f[0] == name:
            return f
    raise KeyError(name)


def _work(chunk):
    fam, tier, k, n = chunk
    _, params, build, _ = _family(fam)
    part = Part()
    for i, p in enumerate(params(tier)):
        if i % n != k:
            continue
        scn = build(p)
        r = check_case(scn)
        part.add(evaluations=1, states=1, traces_validated_against_impl=1, transitions=r['merged'])
        part.add(**{'facts_must': r['nm'], 'unspecified_facts': r['nu']})
        if r['verdict'] == 'unspec':
            part.add(unspecified=1)
        elif r['nm']:
            part.add(distinct_nontrivial=1)
        part.outcome((fam, r['outcome']))
        if r['verdict'] == 'bad':
            for key, exp, obs in r['problems'][:3]:
                vkey = '%s:%r:%s' % (fam, p, key)
                if key.endswith('@default-value') and exp == '' and obs is None:
                    # one finding, not one per scenario: a reported empty-string default is not written
                    vkey = EMPTY_DEFAULT_KEY
                part.violation(vkey,
                               '%s: expected %r, GIR has %r' % (key, exp, obs),
                               {'family': fam, 'params': list(p) if isinstance(p, tuple) else p, 'scenario': scn,
                                'fact': key, 'expected': exp, 'observed': obs})
        if not part.samples:
            decls = c12_oracle.build_decls(scn['decls'])
            part.sample({'family': fam, 'params': repr(p), 'c': fake.c_of(decls), 'dump': r['dump']})
    return part.result()


def run(ctx):
    tier = ctx.tier
    fam_counts = {}
    chunks = []
    only = os.environ.get('C12_FAMILIES')           # development aid: restrict to some families
    for fam, params, build, desc in c12_gen.FAMILIES:
        if only and fam not in only.split(','):
            continue
        n = sum(1 for _ in params(tier))
        fam_counts[fam] = n
        nch = max(1, min(NCHUNK, n // 200))
        chunks += [(fam, tier, k, nch) for k in range(nch)]
    ctx.set(rule='E1: for every scenario of every family (c12_gen.FAMILIES) the runtime registry is printed in '
                 'gdump.c format for the function list the real scanner requests, the full pipeline is run and the '
                 'GIR compared fact-by-fact with the reference model. states = scenarios (distinct by construction), '
                 'transitions = dump items merged (types, properties, signals, error quarks), non-trivial = scenario '
                 'with at least one MUST fact; facts_must = individual MUST facts compared.',
            bounds={'families': {f[0]: f[3] for f in c12_gen.FAMILIES}, 'scenarios': fam_counts,
                    'chain_intermediates_max': 4 if tier == 'thorough' else 3,
                    'property_flag_words': '0..255 x {0, 1<<30, 1<<31, 3<<30}',
                    'signal_flag_words': '0..511 x {0, 1<<17}', 'signal_params_max': 3 if tier == 'thorough' else 2})
    # conformance of the dumper model with the real gdump.c (real GTypes, real g_irepository_dump)
    if not only or 'conf' in only.split(','):
        conformance(ctx)
    # canonical minimal inputs for findings that many scenarios would otherwise each report under their own key
    for key, scn in canonical_probes():
        r = check_case(scn)
        ctx.add(evaluations=1, states=1, traces_validated_against_impl=1, transitions=r['merged'], facts_must=r['nm'])
        for k, exp, obs in r['problems']:
            ctx.violation(key, '%s: expected %r, GIR has %r' % (k, exp, obs),
                          {'family': 'probe', 'params': key, 'scenario': scn, 'fact': k, 'expected': exp,
                           'observed': obs})
    # big chunks first so that the pool drains evenly; the seed only rotates dispatch order
    chunks.sort(key=lambda c: -fam_counts[c[0]] // c[3])
    for r in pmap(_work, rotate(chunks, ctx.seed)):
        ctx.merge(r)
    ctx.assumptions += [
        'the C lexer/parser is replaced by symbol trees (vt/scan/fake.py); the dump is injected by overriding '
        'GDumpParser._execute_binary_get_tree, no binary is compiled or run',
        'the dump text is produced by a re-implementation of gdump.c (vt/scan/c12_gdump.py) over a miniature GType '
        'registry; the conformance part compares it with the real gdump.c on four registries of genuine GTypes '
        '(system GLib 2.74); symbol lookup in that driver goes through a local g_module_symbol (no -rdynamic)',
        'dependency namespaces are the miniature GLib/GObject/Gio GIRs in deps/',
        'UNSPECIFIED (executed, not judged): property/signal types naming a hidden type; when="must-collect" '
        '(not a run phase, not allowed by gir-1.2.rnc); pointer types without structure and boxed types whose name is '
        'taken by a non-structure; parent below a non-classed fundamental; interface with both Iface and Interface '
        'structures; setter/getter/invoker pairing; whether the error-quark function itself stays; c:type when no '
        'instance typedef is scanned; attribute values gdump.c never prints; type names without the namespace prefix',
    ]
    if only:
        ctx.cap('C12_FAMILIES=%s' % only)
        return
    if ctx.cov['evaluations'] < 1000 or len(ctx._outcomes) < 200:
        raise HarnessBroken('vacuous exploration: %d evaluations, %d outcomes' % (ctx.cov['evaluations'],
                                                                                 len(ctx._outcomes)))
    if ctx.cov.get('facts_must', 0) < 10 * ctx.cov['evaluations']:
        raise HarnessBroken('oracle answered MUST on implausibly few facts')


def conformance(ctx):
    n = 0
    for name, _ in c12_conf.REGISTRIES:
        r = c12_conf.run_registry(name)
        n += r['items']
        ctx.add(evaluations=1, states=1, traces_validated_against_impl=1, transitions=r['items'],
                conformance_elements=r['items'], distinct_nontrivial=1)
        ctx.outcome(('conf', name, r['items'], len(r['problems'])))
        for path, real, model in r['problems'][:3]:
            ctx.violation('gdump-conformance:%s:%s' % (name, path),
                          'real gdump.c vs dumper model at %s: gdump.c printed %r, model %r' % (path, real, model),
                          {'conformance': name, 'path': path, 'real': real, 'model': model})
    if n < 500:
        raise HarnessBroken('conformance part compared implausibly few elements (%d)' % n)
    ctx.set(conformance='registries %s registered as genuine GTypes by vt/c/drv_gdump.c and dumped by the real '
                        'g_irepository_dump(); %d XML elements compared with the model' %
                        ([x for x, _ in c12_conf.REGISTRIES], n))


def replay(ctx, case):
    if 'conformance' in case:
        r = c12_conf.run_registry(case['conformance'])
        print('--- real gdump.c')
        print(r['real'] if len(r['real']) < 20000 else r['real'][:20000] + '...')
        print('--- model (vt/scan/c12_gdump.py)')
        print(r['model'] if len(r['model']) < 20000 else r['model'][:20000] + '...')
        for p in r['problems'][:40]:
            print('MISMATCH %s: gdump.c %r, model %r' % p)
        return not r['problems']
    scn = case['scenario']
    decls = c12_oracle.build_decls(scn['decls'])
    print('family %s params %r' % (case.get('family'), case.get('params')))
    print('--- scanned declarations')
    print(fake.c_of(decls))
    r = check_case(scn)
    print('--- dump handed to the scanner')
    print(r['dump'])
    res = execute(scn)[0]
    if res.xml:
        print('--- GIR')
        print(res.xml.decode('utf-8'))
    if res.error:
        print('--- pipeline error')
        print(res.error)
    for key, exp, obs in r['problems']:
        print('MISMATCH %s: expected %r, GIR has %r' % (key, exp, obs))
    print('MUST facts compared: %d, unspecified: %d' % (r['nm'], r['nu']))
    return r['verdict'] != 'bad'
