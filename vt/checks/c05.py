"""C05 - everything left introspectable is bindable and every reference resolves.

Generation-tree search (E1) + corpus.  Oracle: vt/scan/c05_invariants.check_gir (written
from the property statement; independent XML reader) evaluated on the GIR that the real
pipeline (Transformer -> MainTransformer -> IntrospectablePass -> GIRWriter) emits for
every generated API description, and on every *.gir shipped in the repository.

Generated API descriptions ("exotic" APIs).  Every namespace contains a small fixed
environment (an ordinary record, a (skip)ped record, a (foreign) record, a complete
callback, a (skip)ped callback, a varargs callback) and then

 A  one exotic type atom in every slot kind (function/method/callback parameter and
    return value, field, union field, field callback parameter, vfunc parameter, alias
    target), each with every annotation variant of a small menu
 B  alias chains of length 1..4 (typedef E A1; typedef A1 A2; ...) ending in every end
    type of a menu (good and non-introspectable), used by a function, a method, a
    callback, a field and a return value; every declaration order C permits
 C  callbacks taking callbacks: every DAG over n callbacks (edge i->j: callback i takes
    callback j as a scope-complete callback/user-data/destroy-notify triple), one bad
    node with every badness of a menu, heads = function, method hoisted into an
    earlier-declared owner, field, vfunc; every declaration order C permits (a typedef
    name is declared before any declaration that mentions it, struct tags may be used
    before their definition).  n<=4 all DAGs; n=5: all DAGs in the thorough tier, the
    chains and their one-extra-edge neighbours in the quick tier
 E  namespace Foo including FooDep (a namespace whose name starts with "Foo", with types named like local
    ones): FooDep types in every slot kind of part A, directly and through annotations; in addition to the
    invariants, a live qualified reference FooDep.* must be present (rule type-requalified)
 F  containers: GHashTable with (good key, bad value) / (bad, good) / (bad, bad) / (good, good) for every kind of
    unbindable element, lists and arrays of each element, nested containers, in every slot kind and as a property
 G  callables hosted by a registered enumeration, a bitfield and a boxed type without struct (runtime dump):
    every atom of part A as parameter and return value of their static functions / methods, varargs functions
 D  cross references: closure/destroy/array-length annotations naming every parameter
    (functions, methods, callbacks, fields), rename-to pairs, GObject classes whose
    properties (from a generated runtime dump) have exotic types and accessor methods,
    virtual methods with invokers

Declaration orders that C forbids (a typedef used before its declaration) are not
inputs the scanner can receive and are not enumerated (DESIGN.md section 5 item 4).
"""
import glob
import itertools
import os

from vt.core import Part, pmap, chunked, rotate, HarnessBroken, ROOT, REPO
from vt.scan import fake, girread  # noqa: F401
from vt.scan import run as scanrun
from vt.scan import c05_invariants as inv
from vt.scan.fake import Func, Callback, Typedef, Struct, Field, FieldCb, number, c_of

LEVEL = 'model_checking'
DEPS = os.path.join(ROOT, 'deps')
INCLUDES = ['Gio-2.0']

# ------------------------------------------------------------------ case DSL --
# A case is JSON-able: {'part': 'A', 'decls': [spec...], 'comments': [text...], 'dump': str|None, 'note': str}
# spec: ['td', name, target] | ['st', tag, [fieldspec...], union?] | ['cb', name, ret, params, varargs]
#       | ['fn', name, ret, params, varargs] | ['en', name, [[ident, value]...], bitfield?]
# fieldspec: ['f', name, type] | ['fcb', name, ret, params, varargs] | ['fa', name, type, n] | ['fu', name, fields, union?]


def build(spec):
    k = spec[0]
    if k == 'td':
        return Typedef(spec[1], spec[2])
    if k == 'st':
        fields = []
        for f in spec[2]:
            if f[0] == 'f':
                fields.append(Field(f[1], f[2]))
            elif f[0] == 'fa':
                fields.append(Field(f[1], f[2], array=f[3]))
            elif f[0] == 'fu':       # ['fu', name, [[fname, ftype]...], union?]: anonymous struct/union member
                fields.append(fake.FieldAnon(f[1], [Field(n, t) for n, t in f[2]], union=bool(f[3])))
            else:
                fields.append(FieldCb(f[1], f[2], [tuple(p) for p in f[3]], varargs=bool(f[4])))
        return Struct(spec[1], fields, union=bool(spec[3]) if len(spec) > 3 else False)
    if k == 'en':        # ['en', name, [[ident, value]...], bitfield?]
        return fake.Enum(spec[1], [tuple(m) for m in spec[2]], bitfield=bool(spec[3]))
    if k == 'cb':
        return Callback(spec[1], spec[2], [tuple(p) for p in spec[3]], varargs=bool(spec[4]))
    if k == 'fn':
        return Func(spec[1], spec[2], [tuple(p) for p in spec[3]], varargs=bool(spec[4]))
    raise ValueError(spec)


def td(name, target):
    return ['td', name, target]


def st(tag, fields, union=False):
    return ['st', tag, fields, union]


def cb(name, ret, params, varargs=False):
    return ['cb', name, ret, [list(p) for p in params], varargs]


def fn(name, ret, params, varargs=False):
    return ['fn', name, ret, [list(p) for p in params], varargs]


def _well_formed(ann):
    """generator self-check: brackets balance; no space inside a bracketed type argument list; (type T) has
    exactly one option (a space inside T, as in 'long long', would end it)"""
    ann = ann or ''
    depth = 0
    body = ''
    for ch in ann:
        if ch == '(':
            depth += 1
            if depth == 1:
                body = ''
                continue
        elif ch == ')':
            depth -= 1
            if depth < 0:
                return False
            if depth == 0:
                words = body.split(' ')
                if words[0] == 'type' and len(words) != 2:
                    return False
                if words[0] == 'element-type' and len(words) not in (2, 3):
                    return False
                continue
        if ch == ' ' and depth > 1:
            return False
        if depth >= 1:
            body += ch
    return depth == 0


def blk(name, params=(), ret=None, ident=''):
    for a in [ident] + [p[1] for p in params] + ([ret[0]] if ret else []):
        if not _well_formed(a):
            raise HarnessBroken('generator produced a malformed annotation: %r' % a)
    return scanrun.block(name, params=params, ret=ret, ident_ann=ident)


ENV = [
    td('FooObj', 'struct _FooObj'), st('_FooObj', [['f', 'x', 'int']]),
    td('FooSkip', 'struct _FooSkip'), st('_FooSkip', [['f', 'x', 'int']]),
    td('FooForeign', 'struct _FooForeign'),
    cb('FooOkCb', 'void', [('int', 'a'), ('gpointer', 'user_data')]),
    cb('FooSkipCb', 'void', [('int', 'a')]),
    cb('FooVaCb', 'void', [('int', 'a')], varargs=True),
    # local callbacks that merely share the SHORT name of the two exempted GLib/Gio callback types
    cb('FooDestroyNotify', 'void', [('gpointer', 'data')]),
    cb('FooAsyncReadyCallback', 'void', [('FooObj*', 'source'), ('gpointer', 'res'), ('gpointer', 'user_data')]),
]
ENV_COMMENTS = [blk('FooSkip', ident='(skip)'), blk('FooForeign', ident='(foreign)'), blk('FooSkipCb', ident='(skip)')]

CLASS_DECLS_HEAD = [td('FooThing', 'struct _FooThing'), td('FooThingClass', 'struct _FooThingClass'),
                    st('_FooThing', [['f', 'parent_instance', 'GObject']])]
GET_TYPE = fn('foo_thing_get_type', 'GType', [])


def dump_xml(props=(), signals=()):
    out = ['<?xml version="1.0"?><dump><class name="FooThing" get-type="foo_thing_get_type" parents="GObject">']
    for name, gtype, flags in props:
        out.append('<property name="%s" type="%s" flags="%d"/>' % (name, gtype, flags))
    for name, ret, params in signals:
        out.append('<signal name="%s" return="%s"><param type="FooThing"/>%s</signal>' % (
            name, ret, ''.join('<param type="%s"/>' % p for p in params)))
    out.append('</class></dump>')
    return ''.join(out)


# ------------------------------------------------------------------- Part A --
ATOMS_QUICK = ['int', 'FooObj*', 'FooSkip*', 'FooForeign*', 'FooUnknown*', 'va_list', 'long long',
               'unsigned long long', 'long double', 'FooOkCb', 'FooSkipCb', 'FooVaCb', 'GList*', 'GPtrArray*',
               'GHashTable*', 'char**', 'GObject*', 'GDestroyNotify', 'GAsyncReadyCallback', 'gpointer', 'GCallback',
               'FooDestroyNotify', 'FooAsyncReadyCallback']
ATOMS_MORE = ['FooUnknown', 'FooSkip', 'FooObj', 'GSList*', 'GArray*', 'GByteArray*', 'GError**', 'GClosure*', 'GValue*',
              'int*', 'const char*', 'FooObj**', 'FooUnknown**', 'long long*', 'va_list*', 'GList**', 'FooOkCb*',
              'GVariant*', 'GQuark', 'FooE']
ANNS_QUICK = ['', '(skip)', '(transfer none)', '(transfer full)', '(scope call)', '(element-type utf8)',
              '(element-type gpointer)', '(type FooUnknown)', '(element-type FooUnknown)', '(element-type FooSkip)',
              '(nullable)', '(out)', '(type Foo.NoSuch)', '(element-type Foo.NoSuch)', '(type GLib.NoSuch)', '(type Nope.NoSuch)']
ANNS_MORE = ['(type utf8)', '(type FooSkip)', '(type FooVaCb)', '(array)', '(scope async)', '(transfer container)',
             '(element-type Foo.Obj)', '(element-type GLib.List)', '(type GLib.List(FooUnknown))',
             '(type GLib.HashTable(utf8,FooSkip))', '(inout)', '(closure)', '(not nullable)',
             '(array zero-terminated=1) (element-type FooUnknown)', '(type gint64)']


def slot_template(a, ann, extra=()):
    """the atom `a` (with annotation `ann`) in every slot kind -> (decls, comments)"""
    decls = ENV + list(extra) + [
        fn('foo_f', 'void', [(a, 'p')]),
        fn('foo_r', a, []),
        fn('foo_obj_m', 'void', [('FooObj*', 'self'), (a, 'p')]),
        fn('foo_obj_r', a, [('FooObj*', 'self')]),
        cb('FooCbP', 'void', [(a, 'p')]),
        cb('FooCbR', a, []),
        td('FooS', 'struct _FooS'), st('_FooS', [['f', 'f', a], ['fcb', 'fcb', 'void', [[a, 'p']], False]]),
        td('FooU', 'union _FooU'), st('_FooU', [['f', 'f', a], ['f', 'i', 'int']], True),
        td('FooAl', a),
        fn('foo_use_alias', 'void', [('FooAl', 'p')]),
    ] + CLASS_DECLS_HEAD + [
        st('_FooThingClass', [['f', 'parent_class', 'GObjectClass'],
                              ['fcb', 'vf', 'void', [['FooThing*', 'self'], [a, 'p']], False],
                              ['fcb', 'vr', a, [['FooThing*', 'self']], False]]),
        GET_TYPE,
        fn('foo_thing_vf', 'void', [('FooThing*', 'self'), (a, 'p')]),
    ]
    com = list(ENV_COMMENTS)
    if ann:
        for f in ('foo_f', 'foo_obj_m', 'FooCbP', 'foo_thing_vf', 'FooThingClass::vf'):
            com.append(blk(f, params=[('p', ann, 'p')]))
        for f in ('foo_r', 'foo_obj_r', 'FooCbR', 'FooThingClass::vr'):
            com.append(blk(f, ret=(ann, 'r')))
        com.append(blk('FooS', params=[('f', ann, 'f')]))
        com.append(blk('FooU', params=[('f', ann, 'f')]))
    return decls, com


def part_e(tier):
    """Namespace Foo including FooDep (deps/c15: a namespace whose NAME starts with "Foo" and which defines Rec,
    Thing, Kind, Func) next to same-named local types (record Rec, class Thing, callback Func): FooDep types in
    every slot kind of part A, directly and through annotations."""
    local = [td('FooRec', 'struct _FooRec'), st('_FooRec', [['f', 'x', 'int']]),
             cb('FooFunc', 'void', [('gpointer', 'user_data')])]
    atoms = [('FooDepRec*', ''), ('FooDepThing*', ''), ('FooDepKind', ''), ('FooDepFunc', '(scope call)'), ('FooDepRec', ''),
             ('FooDepThing**', '(array zero-terminated=1)'), ('FooDepRec**', '(out)'),
             ('GList*', '(element-type FooDep.Thing)'), ('GPtrArray*', '(element-type FooDep.Rec)'),
             ('GHashTable*', '(element-type utf8 FooDep.Rec)'), ('gpointer', '(type FooDep.Rec)'),
             ('gpointer', '(type FooDep.Thing)'), ('int', '(type FooDep.Kind)'),
             # controls: the same-named local types, which must stay unqualified
             ('FooRec*', ''), ('FooFunc', '(scope call)'), ('FooThing*', '')]
    cases = []
    for a, ann in atoms:
        decls, com = slot_template(a, ann, extra=local)
        dep = 'FooDep' in a or 'FooDep' in ann
        cases.append({'part': 'E', 'decls': decls, 'comments': com, 'dump': dump_xml(), 'dep': 'c15',
                      'expect_ref': 'FooDep.' if dep else None,
                      'note': 'Foo including FooDep: atom %s, annotation %s' % (a, ann or '-')})
    return cases


def part_g(tier):
    """Callables hosted by types other than records and classes: static functions of a GType-registered
    enumeration and bitfield, constructor / method / static function of a boxed type without visible struct
    (all three registered through the runtime dump), each taking and returning every atom of part A, plus a
    varargs function per host."""
    atoms = ATOMS_QUICK + (ATOMS_MORE if tier == 'thorough' else [])
    # ((type <unresolvable>) is left to part A: on a container atom it is the listed finding
    # gen:A:element-type-missing:callable:without-element-type, independent of the host)
    anns = [''] + (['(element-type utf8)', '(scope call)', '(transfer full)', '(skip)', '(nullable)']
                   if tier == 'thorough' else ['(skip)'])
    dump = ('<?xml version="1.0"?><dump>'
            '<enum name="FooColor" get-type="foo_color_get_type"><member name="FOO_COLOR_RED" nick="red" value="0"/>'
            '<member name="FOO_COLOR_BLUE" nick="blue" value="1"/></enum>'
            '<flags name="FooBits" get-type="foo_bits_get_type"><member name="FOO_BITS_A" nick="a" value="1"/>'
            '<member name="FOO_BITS_B" nick="b" value="2"/></flags>'
            '<boxed name="FooBx" get-type="foo_bx_get_type"/></dump>')
    cases = []
    for a in atoms:
        for ann in anns:
            decls = ENV + [
                ['en', 'FooColor', [['FOO_COLOR_RED', 0], ['FOO_COLOR_BLUE', 1]], False],
                ['en', 'FooBits', [['FOO_BITS_A', 1], ['FOO_BITS_B', 2]], True],
                fn('foo_color_get_type', 'GType', []), fn('foo_bits_get_type', 'GType', []), fn('foo_bx_get_type', 'GType', []),
            ]
            com = list(ENV_COMMENTS)
            for host in ('color', 'bits', 'bx'):
                decls += [fn('foo_%s_p' % host, 'void', [(a, 'p')]), fn('foo_%s_r' % host, a, []),
                          fn('foo_%s_format' % host, 'void', [('int', 'n')], varargs=True),
                          fn('foo_%s_ok' % host, 'int', [('int', 'n')])]
                if ann:
                    com.append(blk('foo_%s_p' % host, params=[('p', ann, 'p')]))
                    com.append(blk('foo_%s_r' % host, ret=(ann, 'r')))
            decls += [fn('foo_bx_new', 'FooBx*', []), fn('foo_bx_m', 'void', [('FooBx*', 'self'), (a, 'p')]),
                      fn('foo_bx_mr', a, [('FooBx*', 'self')])]
            if ann:
                com.append(blk('foo_bx_m', params=[('p', ann, 'p')]))
                com.append(blk('foo_bx_mr', ret=(ann, 'r')))
            cases.append({'part': 'G', 'decls': decls, 'comments': com, 'dump': dump, 'hosts': True,
                          'note': 'functions of registered enum/flags/boxed: atom %s, annotation %s' % (a, ann or '-')})
    return cases


def part_f(tier):
    """Container alphabet: GHashTable with (good key, bad value), (bad key, good value), (bad, bad), (good, good) for
    every kind of bad element (unknown name, demoted callback, skipped record, skipped callback, forbidden atom),
    in every slot kind of part A and as a GObject property; lists/arrays of each element; nested containers."""
    good = ['utf8', 'Foo.Obj', 'gint']
    bad = ['FooUnknown', 'Foo.NoSuch', 'Foo.VaCb', 'Foo.Skip', 'Foo.SkipCb', 'va_list']
    if tier == 'thorough':
        good += ['gpointer', 'Foo.OkCb', 'GLib.Variant']
        # no C spellings with a space ('long long', 'long double'): inside an annotation the space ends the
        # option, leaving a malformed type string - those atoms can only come from C declarations (part A)
        bad += ['GLib.NoSuch', 'Foo.NoScopeCb', 'Foo.LLCb', 'FooSkip*']
    pairs = [(k, v) for k in good[:2] for v in bad] + [(k, v) for k in bad for v in good[:2]] + \
            [(k, v) for k in bad[:3] for v in bad[:3]] + [(k, v) for k in good for v in good]
    anns = []
    for k, v in pairs:
        anns.append(('GHashTable*', '(element-type %s %s)' % (k, v)))
        anns.append(('gpointer', '(type GLib.HashTable(%s,%s))' % (k, v)))
    for e in good + bad:
        anns.append(('GList*', '(element-type %s)' % e))
        anns.append(('GPtrArray*', '(element-type %s)' % e))
        anns.append(('GList*', '(element-type GLib.HashTable(utf8,%s))' % e))
        anns.append(('gpointer', '(type GLib.List(GLib.HashTable(%s,utf8)))' % e))
        anns.append(('GHashTable*', '(element-type utf8 GLib.List(%s))' % e))
    cases = []
    for a, ann in anns:
        decls, com = slot_template(a, ann, extra=EXTRA_CBS)
        com.append(blk('FooThing:tbl', ident=ann))
        cases.append({'part': 'F', 'decls': decls, 'comments': com,
                      'dump': dump_xml(props=[('tbl', 'GHashTable' if a == 'GHashTable*' else 'gpointer', 3)],
                                       signals=[]),
                      'note': 'container %s %s' % (a, ann)})
    return cases


def part_a(tier):
    atoms = ATOMS_QUICK + (ATOMS_MORE if tier == 'thorough' else [])
    anns = ANNS_QUICK + (ANNS_MORE if tier == 'thorough' else [])
    cases = []
    for a in atoms:
        for ann in anns:
            decls, com = slot_template(a, ann)
            cases.append({'part': 'A', 'decls': decls, 'comments': com, 'dump': dump_xml(),
                          'note': 'atom %s, annotation %s' % (a, ann or '-')})
    return cases


# ------------------------------------------------------------------- Part B --
ENDS_QUICK = ['int', 'FooObj*', 'FooOkCb', 'va_list', 'long long', 'long double', 'FooUnknown*', 'FooSkip*',
              'FooVaCb', 'FooSkipCb', 'FooNoScopeCb']
ENDS_MORE = ['unsigned long long', 'FooUnknown', 'GList*', 'FooForeign*', 'GDestroyNotify', 'char**', 'FooLLCb']
EXTRA_CBS = [cb('FooNoScopeCb', 'void', [('FooOkCb', 'inner')]), cb('FooLLCb', 'long long', [('int', 'a')])]


def linear_extensions(items, before):
    """All orders of `items` (hashable ids) such that for (a, b) in before: a precedes b."""
    items = list(items)
    preds = {x: set() for x in items}
    for a, b in before:
        if a in preds and b in preds:
            preds[b].add(a)
    out = []

    def rec(done, doneset, rest):
        if not rest:
            out.append(list(done))
            return
        for x in rest:
            if preds[x] <= doneset:
                done.append(x)
                doneset.add(x)
                rec(done, doneset, [y for y in rest if y != x])
                doneset.discard(x)
                done.pop()
    rec([], set(), items)
    return out


def part_b(tier):
    ends = ENDS_QUICK + (ENDS_MORE if tier == 'thorough' else [])
    cases = []
    for length in (1, 2, 3, 4):
        for end in ends:
            chain = [td('FooA1', end)] + [td('FooA%d' % i, 'FooA%d' % (i - 1)) for i in range(2, length + 1)]
            top = 'FooA%d' % length
            users = {
                'fn': fn('foo_use', 'void', [(top, 'p'), ('gpointer', 'user_data'), ('GDestroyNotify', 'd')]),
                'ret': fn('foo_ret', top, []),
                'meth': fn('foo_obj_use', 'void', [('FooObj*', 'self'), (top, 'p')]),
                'cb': cb('FooUserCb', 'void', [(top, 'p'), ('gpointer', 'user_data'), ('GDestroyNotify', 'd')]),
                'std': td('FooS', 'struct _FooS'),
                'sbody': st('_FooS', [['f', 'f', top], ['fcb', 'fcb', 'void', [[top, 'p']], False]]),
                'ptr': td('FooPtrAl', top + '*'),
            }
            # orders: the chain is totally ordered by C; every user mentions `top`, so it follows the chain;
            # the struct typedef may precede everything (tags may be used before definition).  Enumerated:
            # every rotation of the user order x the struct typedef first / right after the chain /
            # directly before the struct body (18 orders; the quick tier takes the first 6)
            orders = _orders_b() if tier == 'thorough' else _orders_b()[:6]
            for o in orders:
                decls = list(ENV) + EXTRA_CBS
                for x in o:
                    if x == 'chain':
                        decls += chain
                    else:
                        decls.append(users[x])
                cases.append({'part': 'B', 'decls': decls, 'comments': list(ENV_COMMENTS), 'dump': None,
                              'note': 'alias chain of length %d ending in %s, order %s' % (length, end, ' '.join(o))})
    return cases


def _orders_b():
    base = ['fn', 'ret', 'meth', 'cb', 'sbody', 'ptr']
    out = []
    for rot in range(len(base)):
        users = base[rot:] + base[:rot]
        for stdpos in ('first', 'mid', 'adjacent'):
            if stdpos == 'first':
                o = ['std', 'chain'] + users
            elif stdpos == 'mid':
                o = ['chain', 'std'] + users
            else:
                i = users.index('sbody')
                o = ['chain'] + users[:i] + ['std'] + users[i:]
            out.append(o)
    # simplest first: plain order, then the rest
    out.sort(key=lambda o: (o != ['chain', 'std'] + base, 0))
    seen = []
    for o in out:
        if o not in seen:
            seen.append(o)
    return seen


# ------------------------------------------------------------------- Part C --
BAD_QUICK = ['varargs', 'unresolved', 'noscope', 'longlong']
BAD_MORE = ['valist', 'skipann', 'skiprec', 'retcb', 'longdouble', 'barelist']


def bad_callback(name, kind, triples):
    """typedef of callback `name` that is not introspectable for reason `kind`;
    triples: the (callback, data, destroy) parameter triples it also takes."""
    params = list(triples)
    ret = 'void'
    va = False
    comments = []
    if kind == 'varargs':
        params.append(('int', 'n'))
        va = True
    elif kind == 'unresolved':
        params.append(('FooUnknown*', 'u'))
    elif kind == 'noscope':
        params.append(('FooOkCb', 'lonely'))
    elif kind == 'longlong':
        params.append(('long long', 'll'))
    elif kind == 'valist':
        params.append(('va_list', 'ap'))
    elif kind == 'skipann':
        comments.append(blk(name, ident='(skip)'))
    elif kind == 'skiprec':
        params.append(('FooSkip*', 's'))
    elif kind == 'retcb':
        ret = 'FooOkCb'
    elif kind == 'longdouble':
        ret = 'long double'
    elif kind == 'barelist':
        params.append(('GList*', 'l'))
    else:
        raise ValueError(kind)
    return cb(name, ret, params, va), comments


def triple(j):
    return [('FooC%d' % j, 'c%d' % j), ('gpointer', 'c%d_data' % j), ('GDestroyNotify', 'c%d_destroy' % j)]


def dags(n, tier):
    pairs = [(i, j) for i in range(1, n + 1) for j in range(i + 1, n + 1)]
    chain = set((i, i + 1) for i in range(1, n))
    out = []
    for bits in range(1 << len(pairs)):
        edges = [p for k, p in enumerate(pairs) if bits >> k & 1]
        # every node is connected to node 1 (the head) - otherwise it is a smaller case plus noise
        reach = {1}
        grew = True
        while grew:
            grew = False
            for i, j in edges:
                if i in reach and j not in reach:
                    reach.add(j)
                    grew = True
        if len(reach) != n:
            continue
        if n >= 5 and tier != 'thorough':
            extra = set(edges) - chain
            if not chain <= set(edges) or len(extra) > 1:
                continue
        out.append(edges)
    out.sort(key=lambda e: (len(e), e))
    return out


def part_c(tier):
    cases = []
    bads = BAD_QUICK + (BAD_MORE if tier == 'thorough' else [])
    for n in (2, 3, 4, 5):
        for edges in dags(n, tier):
            for badnode in range(1, n + 1):
                for bi, kind in enumerate(bads):
                    if n == 5 and tier != 'thorough' and bi > 1:
                        continue
                    com = list(ENV_COMMENTS)
                    cbs = {}
                    for i in range(1, n + 1):
                        tr = []
                        for (a, b) in edges:
                            if a == i:
                                tr += triple(b)
                        if i == badnode:
                            spec, c2 = bad_callback('FooC%d' % i, kind, tr)
                            com += c2
                        else:
                            spec = cb('FooC%d' % i, 'void', tr + [('int', 'x')])
                        cbs[i] = spec
                    heads = {
                        'fn': fn('foo_head', 'void', triple(1)),
                        'meth': fn('foo_obj_head', 'void', [('FooObj*', 'self')] + triple(1)),
                        'sbody': st('_FooHS', [['f', 'direct', 'FooC1'],
                                                ['fcb', 'inl', 'void', [list(p) for p in triple(1)], False]]),
                        'cbody': st('_FooThingClass', [['f', 'parent_class', 'GObjectClass'],
                                                        ['fcb', 'vhead', 'void',
                                                         [['FooThing*', 'self']] + [list(p) for p in triple(1)], False]]),
                    }
                    cb_orders = linear_extensions(range(1, n + 1), [(j, i) for (i, j) in edges])
                    # heads follow callback 1 (they mention it); vary the callback order fully and the
                    # head placement over: all heads last / each head directly after callback 1
                    for co in cb_orders:
                        for hp in ('last', 'early'):
                            if hp == 'last':
                                order = list(co) + ['fn', 'meth', 'sbody', 'cbody']
                            else:
                                k = co.index(1) + 1
                                order = list(co[:k]) + ['cbody', 'sbody', 'meth', 'fn'] + list(co[k:])
                            decls = [td('FooHS', 'struct _FooHS')] + CLASS_DECLS_HEAD + ENV + [GET_TYPE]
                            for x in order:
                                decls.append(cbs[x] if isinstance(x, int) else heads[x])
                            cases.append({'part': 'C', 'decls': decls, 'comments': com, 'dump': dump_xml(),
                                          'note': 'callbacks %d, edges %s, bad node %d (%s), order %s' % (
                                              n, edges, badnode, kind, ' '.join(str(x) for x in order))})
    return cases


# ------------------------------------------------------------------- Part D --
def part_d(tier):
    cases = []
    names = ['cb', 'ctx', 'n', 'arr', 'fr', 'nosuch']
    params = [('FooOkCb', 'cb'), ('gpointer', 'ctx'), ('int', 'n'), ('int*', 'arr'), ('GDestroyNotify', 'fr')]
    for method in (False, True):
        fname = 'foo_obj_x' if method else 'foo_x'
        ps = ([('FooObj*', 'self')] if method else []) + params
        tnames = names + (['self'] if method else [])
        variants = [('cb', '(closure %s)' % t) for t in tnames] + [('cb', '(destroy %s)' % t) for t in tnames] + \
                   [('arr', '(array length=%s)' % t) for t in tnames] + \
                   [('cb', '(closure %s) (destroy %s)' % (a, b)) for a in tnames[:5] for b in tnames[:5]] + \
                   [('cb', '(scope call) (closure %s)' % t) for t in tnames]
        for target, ann in variants:
            com = ENV_COMMENTS + [blk(fname, params=[(target, ann, 'x')])]
            cases.append({'part': 'D', 'decls': ENV + [fn(fname, 'int*', ps)], 'comments': com, 'dump': None,
                          'note': '%s: @%s %s' % (fname, target, ann), 'names_instance': 'self' in ann})
        for t in tnames:
            com = ENV_COMMENTS + [blk(fname, ret=('(array length=%s)' % t, 'r'))]
            cases.append({'part': 'D', 'decls': ENV + [fn(fname, 'int*', ps)], 'comments': com, 'dump': None,
                          'note': '%s: Returns (array length=%s)' % (fname, t), 'names_instance': t == 'self'})
    # callbacks: (closure) marks the user data
    for t in ('cb', 'ctx', 'n'):
        com = ENV_COMMENTS + [blk('FooXCb', params=[(t, '(closure)', 'x')])]
        cases.append({'part': 'D', 'decls': ENV + [cb('FooXCb', 'void', params)], 'comments': com, 'dump': None,
                      'note': 'callback: @%s (closure)' % t})
    # fields
    for t in ('n', 'arr', 'm', 'inner', 'nosuch'):
        s = [td('FooS', 'struct _FooS'),
             st('_FooS', [['f', 'n', 'int'], ['fcb', 'inner', 'void', [['int', 'a']], False], ['f', 'arr', 'int*'],
                          ['f', 'm', 'int']])]
        com = ENV_COMMENTS + [blk('FooS', params=[('arr', '(array length=%s)' % t, 'x')])]
        cases.append({'part': 'D', 'decls': ENV + s, 'comments': com, 'dump': None,
                      'note': 'field: @arr (array length=%s)' % t})
    # rename-to
    for a, b in (('foo_w', 'foo_w_full'), ('foo_obj_w', 'foo_obj_w_full'), ('foo_obj_w', 'foo_w_full'),
                 ('foo_w', 'foo_obj_w_full')):
        def sig(nm):
            return [('FooObj*', 'self')] if nm.startswith('foo_obj_') else [('int', 'a')]
        for bad_first in (False, True):
            d = ENV + [fn(a, 'void', sig(a) + ([('FooOkCb', 'lonely')] if bad_first else [])),
                       fn(b, 'void', sig(b) + [('int', 'extra')])]
            for ann in ('(rename-to %s)' % a, '(rename-to foo_nosuch)', '(rename-to %s) (skip)' % a):
                com = ENV_COMMENTS + [blk(b, ident=ann)]
                cases.append({'part': 'D', 'decls': d, 'comments': com, 'dump': None,
                              'note': '%s: %s (shadowed demoted: %s)' % (b, ann, bad_first)})
            com = ENV_COMMENTS + [blk(b, ident='(rename-to %s)' % a), blk(a, ident='(rename-to %s)' % b)]
            cases.append({'part': 'D', 'decls': d, 'comments': com, 'dump': None, 'note': 'mutual rename-to'})
    # rename-to graphs: k functions (namespace functions, or methods of one record), each either without
    # (rename-to) or renaming to one of the others: every assignment for k=3 under every declaration order,
    # every assignment for k=4 in one order (fan-in of 2 and 3, chains, 2- and 3-cycles, mixtures);
    # shadow-pair violations of these cases are keyed by the graph's shape (see rename_shape)
    for k in (3, 4):
        choices = [[None] + [j for j in range(k) if j != i] for i in range(k)]
        orders = list(itertools.permutations(range(k))) if k == 3 else [tuple(range(k))]
        for assign in itertools.product(*choices):
            if all(a is None for a in assign):
                continue
            shape = rename_shape(assign)
            for method in (False, True):
                names = [('foo_obj_r%d' if method else 'foo_r%d') % i for i in range(k)]
                for order in orders:
                    d = ENV + [fn(names[i], 'void', ([('FooObj*', 'self')] if method else []) + [('int', 'a%d' % x) for x in range(i + 1)])
                               for i in order]
                    com = ENV_COMMENTS + [blk(names[i], ident='(rename-to %s)' % names[assign[i]])
                                          for i in order if assign[i] is not None]
                    cases.append({'part': 'D', 'decls': d, 'comments': com, 'dump': None, 'shape': shape,
                                  'note': 'rename-to graph %s over %s, declared %s (%s)' % (
                                      ' '.join('%d->%s' % (i, assign[i]) for i in range(k) if assign[i] is not None),
                                      'methods' if method else 'functions', ''.join(map(str, order)), shape)})
    # (virtual SLOT) on a method (documented use), and on a static function / constructor (documented
    # for methods only: a misplaced annotation, outcome UNSPECIFIED for the invoker rule)
    for spec, nm, misuse in ((fn('foo_thing_other', 'void', [('FooThing*', 'self'), ('int', 'x')]), 'foo_thing_other', None),
                             (fn('foo_thing_stat', 'void', [('int', 'x')]), 'foo_thing_stat', ['invoker']),
                             (fn('foo_thing_new', 'FooThing*', []), 'foo_thing_new', ['invoker'])):
        for slot in ('vf', 'nosuch'):
            d = CLASS_DECLS_HEAD + ENV + [
                st('_FooThingClass', [['f', 'parent_class', 'GObjectClass'],
                                      ['fcb', 'vf', 'void', [['FooThing*', 'self'], ['int', 'x']], False]]),
                GET_TYPE, spec]
            cases.append({'part': 'D', 'decls': d, 'comments': ENV_COMMENTS + [blk(nm, ident='(virtual %s)' % slot)],
                          'dump': dump_xml(), 'note': '%s: (virtual %s)' % (nm, slot), 'misuse': misuse})
    # accessor methods carrying an explicit (set-property Q) / (get-property Q), Q = the property their name
    # implies / another existing property / a property that does not exist / no annotation, with and without
    # the other property having accessors of its own
    for qs in (None, 'label', 'title', 'nosuch'):
        for qg in (None, 'label', 'title', 'nosuch'):
            for own in ('none', 'both', 'setter'):
                for flags in (3, 1):
                    d = CLASS_DECLS_HEAD + ENV + [
                        st('_FooThingClass', [['f', 'parent_class', 'GObjectClass']]), GET_TYPE,
                        fn('foo_thing_set_label', 'void', [('FooThing*', 'self'), ('const char*', 'v')]),
                        fn('foo_thing_get_label', 'const char*', [('FooThing*', 'self')])]
                    if own in ('both', 'setter'):
                        d.append(fn('foo_thing_set_title', 'void', [('FooThing*', 'self'), ('const char*', 'v')]))
                    if own == 'both':
                        d.append(fn('foo_thing_get_title', 'const char*', [('FooThing*', 'self')]))
                    com = list(ENV_COMMENTS)
                    if qs:
                        com.append(blk('foo_thing_set_label', ident='(set-property %s)' % qs))
                    if qg:
                        com.append(blk('foo_thing_get_label', ident='(get-property %s)' % qg))
                    cases.append({'part': 'D', 'decls': d, 'comments': com, 'annotated_accessors': True,
                                  'explicit_methods': (['set_label'] if qs else []) + (['get_label'] if qg else []),
                                  'dump': dump_xml(props=[('label', 'gchararray', flags), ('title', 'gchararray', 3)]),
                                  'note': 'set_label (set-property %s), get_label (get-property %s), title accessors %s, '
                                          'label flags %d' % (qs, qg, own, flags)})
    # properties with accessors and exotic types; vfuncs with invokers
    ptypes = ['gint', 'gchararray', 'gboolean', 'FooNoSuch', 'GStrv', 'GHashTable', 'GPtrArray', 'FooThing', 'gpointer',
              'GObject', 'glong', 'gint64', 'GVariant', 'GArray']
    ctype_of = {'gint': 'int', 'gchararray': 'const char*', 'gboolean': 'gboolean', 'FooNoSuch': 'FooNoSuch*',
                'GStrv': 'char**', 'GHashTable': 'GHashTable*', 'GPtrArray': 'GPtrArray*', 'FooThing': 'FooThing*',
                'gpointer': 'gpointer', 'GObject': 'GObject*', 'glong': 'long', 'gint64': 'long long', 'GVariant': 'GVariant*',
                'GArray': 'GArray*'}
    for pt in ptypes:
        for flags in (1, 2, 3, 3 | 8, 3 | 4):
            for acc in ('both', 'setter', 'getter', 'badsetter', 'is', 'plain'):
                ct = ctype_of[pt]
                d = CLASS_DECLS_HEAD + ENV + [
                    st('_FooThingClass', [['f', 'parent_class', 'GObjectClass'],
                                          ['fcb', 'set_p', 'void', [['FooThing*', 'self'], [ct, 'v']], False],
                                          ['fcb', 'other', 'void', [['FooThing*', 'self'], ['FooVaCb', 'v']], False]]),
                    GET_TYPE]
                if acc in ('both', 'setter'):
                    d.append(fn('foo_thing_set_p', 'void', [('FooThing*', 'self'), (ct, 'v')]))
                if acc in ('both', 'getter'):
                    d.append(fn('foo_thing_get_p', ct, [('FooThing*', 'self')]))
                if acc == 'badsetter':
                    d.append(fn('foo_thing_set_p', 'void', [('FooThing*', 'self'), (ct, 'v'), ('FooOkCb', 'lonely')]))
                    d.append(fn('foo_thing_get_p', 'FooOkCb', [('FooThing*', 'self')]))
                if acc == 'is':
                    d.append(fn('foo_thing_is_p', ct, [('FooThing*', 'self')]))
                    d.append(fn('foo_thing_get_p', ct, [('FooThing*', 'self')]))
                if acc == 'plain':
                    d.append(fn('foo_thing_p', ct, [('FooThing*', 'self')]))
                    d.append(fn('foo_thing_other', 'void', [('FooThing*', 'self'), ('FooVaCb', 'v')]))
                cases.append({'part': 'D', 'decls': d, 'comments': list(ENV_COMMENTS),
                              'dump': dump_xml(props=[('p', pt, flags), ('q-r', 'gint', 3)],
                                               signals=[('sig', 'void', ['gint', pt]), ('sig2', pt, [])]),
                              'note': 'property p of GType %s flags %d, accessors %s' % (pt, flags, acc)})
    # multi-word (dashed) property names: big-value with foo_thing_set_big_value / get_big_value (and
    # is_big_value), for every property type above - the bindable ones are the controls
    for pt in ptypes:
        for flags in (1, 3, 3 | 4):
            for acc in ('both', 'setter', 'getter', 'is'):
                ct = ctype_of[pt]
                d = CLASS_DECLS_HEAD + ENV + [st('_FooThingClass', [['f', 'parent_class', 'GObjectClass']]), GET_TYPE]
                if acc in ('both', 'setter'):
                    d.append(fn('foo_thing_set_big_value', 'void', [('FooThing*', 'self'), (ct, 'v')]))
                if acc in ('both', 'getter', 'is'):
                    d.append(fn('foo_thing_get_big_value', ct, [('FooThing*', 'self')]))
                if acc == 'is':
                    d.append(fn('foo_thing_set_other_one', 'void', [('FooThing*', 'self'), ('int', 'v')]))
                    d.append(fn('foo_thing_get_other_one', 'int', [('FooThing*', 'self')]))
                cases.append({'part': 'D', 'decls': d, 'comments': list(ENV_COMMENTS),
                              'dump': dump_xml(props=[('big-value', pt, flags), ('other-one', 'gint', 3)]),
                              'note': 'property big-value of GType %s flags %d, accessors %s' % (pt, flags, acc)})
    return cases


def rename_shape(assign):
    """'chain' if some function both renames and is renamed-to (chains and cycles: the writer can state
    only one of shadows / shadowed-by per function), else 'fanin' if two or more functions rename to the
    same target, else 'simple'"""
    targets = set(j for j in assign if j is not None)
    if any(assign[j] is not None for j in targets):
        return 'chain'
    if len(targets) < sum(1 for j in assign if j is not None):
        return 'fanin'
    return 'simple'


PARTS = {'A': part_a, 'B': part_b, 'C': part_c, 'D': part_d, 'E': part_e, 'F': part_f, 'G': part_g}


# ---------------------------------------------------------------- execution --
def case_text(case):
    decls = number([build(s) for s in case['decls']])
    return c_of(decls)


def classify(finding, root):
    """Stable key of a violation: rule, element kind and the kind of thing it points at."""
    rule, path, msg = finding
    last = path.rsplit('/', 1)[-1]
    tag = last.split('[', 1)[0]
    if tag in inv.CALLABLES:
        tag = 'callable'
    detail = ''
    if rule in ('type-target-dead', 'type-not-a-type'):
        # "uses X which ..." -> kind of X
        name = msg.split()[1] if msg.startswith('uses ') else msg.split()[0]
        ns = root.find('namespace')
        kind = '?'
        for k in ns.kids:
            if k.get('name') == name:
                kind = k.tag
                break
        if 'field holds a callback' in msg:
            kind = 'inline-callback'
        detail = ':' + kind
    elif rule == 'element-type-missing':
        detail = ':bare-gpointer' if 'bare gpointer' in msg else ':without-element-type'
    elif rule == 'type-forbidden':
        detail = ':' + msg.split(' in an ')[0].replace(' ', '-')
    elif rule == 'index-range':
        detail = ':' + msg.split('=')[0].split()[-1]
    return '%s:%s%s' % (rule, tag, detail)


def run_case(case):
    """-> (status, findings, xml, root): status 'ok' | 'rejected' (scanner exits with a diagnostic) | 'crash'"""
    decls = number([build(s) for s in case['decls']])
    comments = [scanrun.comment(t, line=100 + 40 * i) for i, t in enumerate(case['comments'])]
    dirs = [DEPS]
    includes = INCLUDES
    if case.get('dep'):
        dirs = [os.path.join(DEPS, case['dep']), DEPS]
        includes = INCLUDES + ['FooDep-1.0']
    r = scanrun.scan(decls, comments, includes=includes, dump=case.get('dump'), include_paths=dirs)
    if r.error is not None:
        if r.error.startswith('SystemExit'):
            return 'rejected', r.error, None, None
        return 'crash', r.error, None, None
    root = girread.parse(r.xml)
    # explicit (set-property)/(get-property) annotations may name anything: for those descriptions only the
    # forward direction (property accessor -> method's annotation) and uniqueness are MUST
    ann = bool(case.get('annotated_accessors'))
    f = inv.check_root(root, dirs, strict_accessors=not ann, unique_accessors=True)
    if case.get('expect_ref') and not f and not _live_ref(root, case['expect_ref']):
        # every type reference resolved - but to something else: the description uses a type of the included
        # namespace in elements that stay introspectable, and no such qualified reference was written
        f.append(('type-requalified', 'namespace[Foo]', 'no live element refers to %s* although the API uses such types'
                  % case['expect_ref']))
    return 'ok', f, r.xml, root


def _live_ref(root, prefix):
    """does some live (not introspectable="0") element carry a <type name="prefix...">?"""
    def rec(e, alive):
        for k in e.kids:
            a = alive and k.get('introspectable') != '0'
            if a and k.tag in ('type', 'array') and (k.get('name') or '').startswith(prefix):
                return True
            if rec(k, a):
                return True
        return False
    return rec(root.find('namespace'), True)


def live_summary(root):
    """(#live, #dead) over callables/fields/properties/aliases: the observable outcome of a case"""
    live = dead = 0

    def rec(e, alive):
        nonlocal live, dead
        for k in e.kids:
            a = alive and k.get('introspectable') != '0'
            if k.tag in inv.CALLABLES or k.tag in ('field', 'property', 'alias'):
                if a:
                    live += 1
                else:
                    dead += 1
            if k.tag in inv.CONTAINERS or k.tag == 'field':
                rec(k, a)
    rec(root.find('namespace'), True)
    return live, dead


def _work(chunk):
    part = Part()
    best = {}
    for case in chunk:
        status, f, xml, root = run_case(case)
        part.add(evaluations=1, states=1, transitions=len(case['decls']), traces_validated_against_impl=1)
        if status == 'rejected':
            part.add(rejected=1)
            part.outcome(('rejected', case['part']))
            continue
        if status == 'crash' and case.get('names_instance'):
            # an annotation that names the instance parameter makes GIRWriter raise ValueError instead of
            # a diagnostic; no GIR is emitted, so the property (about emitted GIRs) says nothing
            part.add(unspecified=1, rejected_by_crash=1)
            part.outcome(('crash-unspecified', case['part']))
            continue
        if status == 'crash':
            where = f.strip().split('\n')[-1][:120]
            key = 'crash:%s:%s' % (case['part'], f.split(':', 1)[0])
            _keep(best, key, 'scanner crashed on a valid API description: %s ... %s' % (f.split('\n')[0][:200], where), case)
            part.outcome(('crash', case['part']))
            continue
        live, dead = live_summary(root)
        part.add(unspecified=f.unspecified, musts=f.musts, unchecked_refs=len(f.unchecked))
        part.outcome((case['part'], live, dead))
        if f.musts and live and dead:
            part.nontrivial(case['note'])
        for fd in f:
            if case.get('misuse') and fd[0] in case['misuse']:
                part.add(unspecified=1)
                continue
            key = 'gen:%s:%s' % (case['part'], classify(fd, root))
            if fd[0] == 'accessor-unique':
                # a claimant carrying an explicit (set-property)/(get-property) is a user-provided contradiction the
                # statement ("an INFERRED setter or getter ... agree") does not cover: UNSPECIFIED
                claimants = [x.strip() for x in fd[2].rsplit('methods ', 1)[1].split(',')]
                if set(claimants) & set(case.get('explicit_methods') or ()):
                    part.add(unspecified=1)
                    continue
                key = 'gen:%s:accessor-unique:inferred' % case['part']
            if fd[0] == 'shadow-pair' and case.get('shape'):
                key = 'gen:%s:shadow-pair:%s' % (case['part'], case['shape'])
            _keep(best, key, '%s at %s: %s [%s]' % (fd[0], fd[1], fd[2], case['note']), case)
        if len(part.samples) < 2 and dead:
            part.sample({'part': case['part'], 'note': case['note'], 'c': case_text(case),
                         'comments': case['comments'][len(ENV_COMMENTS):], 'live': live, 'dead': dead})
    for key, (size, desc, case) in sorted(best.items()):
        part.violation(key, desc, dict(case, key=key))
    return part.result()


def _keep(best, key, desc, case):
    size = (len(case['decls']), len(case['comments']), case['note'])
    if key not in best or size < best[key][0]:
        best[key] = (size, desc, case)


def corpus_files():
    out = sorted(glob.glob(os.path.join(REPO, 'gir', '*.gir'))) + \
        sorted(glob.glob(os.path.join(REPO, 'tests', 'scanner', '*.gir')))
    return out


def corpus_dirs():
    return [os.path.join(REPO, 'gir'), os.path.join(REPO, 'tests', 'scanner'), DEPS]


def run_corpus(ctx):
    files = corpus_files()
    if len(files) < 20:
        raise HarnessBroken('only %d GIR files found under %s' % (len(files), REPO))
    musts = 0
    for p in files:
        rel = os.path.relpath(p, REPO)
        with open(p, 'rb') as fh:
            data = fh.read()
        f = inv.check_gir(data, corpus_dirs())
        ctx.add(evaluations=1, states=1, traces_validated_against_impl=1, unspecified=f.unspecified,
                unchecked_refs=len(f.unchecked), musts=f.musts, corpus_files=1)
        musts += f.musts
        ctx.outcome(('corpus', rel, f.musts, len(f.unchecked)))
        if f.musts:
            ctx.nontrivial('corpus:' + rel)
        for fd in f:
            ctx.violation('corpus:%s:%s:%s' % (rel, fd[0], fd[1]), '%s: %s at %s: %s' % (rel, fd[0], fd[1], fd[2]),
                          {'file': rel, 'finding': list(fd)})
    if musts < 1000:
        raise HarnessBroken('corpus evaluated only %d MUST rules' % musts)


def run(ctx):
    tier = ctx.tier
    cases = []
    sizes = {}
    for name in 'ABCDEFG':
        cs = PARTS[name](tier)
        sizes[name] = len(cs)
        cases += cs
    ctx.set(rule='structural invariants of vt/scan/c05_invariants (rules: type-unresolved, type-unknown, type-not-a-type, '
                 'type-target-dead, type-forbidden, transfer-missing, scope-missing, element-type-missing, index-range, '
                 'shadow-pair, type-struct-pair, accessor-pair (strict), accessor-unique, invoker) on the GIR emitted for every generated '
                 'API description of parts A-D (see module docstring) and on every *.gir under gir/ and tests/scanner/; '
                 'non-trivial = description for which the output has both live and demoted elements and at least one MUST '
                 'rule was evaluated',
            bounds={'cases_per_part': sizes, 'alias_chain_length': 4, 'callbacks_per_dag': 5,
                    'atoms': len(ATOMS_QUICK) + (len(ATOMS_MORE) if tier == 'thorough' else 0),
                    'annotation_variants': len(ANNS_QUICK) + (len(ANNS_MORE) if tier == 'thorough' else 0)})
    run_corpus(ctx)
    chunks = rotate(chunked(cases, 64), ctx.seed)
    for r in pmap(_work, chunks):
        ctx.merge(r)
    _stable_first(ctx)
    ctx.assumptions += [
        'symbol trees instead of C text (vt/scan/fake.py); only declaration orders valid in C are enumerated',
        'miniature dependency GIRs deps/{GLib,GObject,Gio}-2.0.gir; references into them that they do not define, and '
        'references into namespaces without a GIR in the sandbox (cairo), are counted as unchecked_refs, not violations',
        'alias targets are written as bare type references: their missing element type is not a violation',
        'skip="1" parameters/return values are exempt from the transfer and scope rules (unspecified)',
        'scanner exits with a Fatal diagnostic (annotation names a parameter that does not exist) are counted as rejected',
    ]
    if ctx.cov.get('musts', 0) < 10000 or len(ctx._outcomes) < 30 or len(ctx._nontrivial) < 100:
        raise HarnessBroken('vacuous exploration: musts=%s outcomes=%d nontrivial=%d' % (
            ctx.cov.get('musts'), len(ctx._outcomes), len(ctx._nontrivial)))


def _stable_first(ctx):
    """core keeps the first violation per key: make that the smallest case, independent of dispatch order"""
    import json
    ctx.violations.sort(key=lambda v: (v[0], len(json.dumps(v[2], sort_keys=True, default=repr)),
                                       json.dumps(v[2], sort_keys=True, default=repr)))


def replay(ctx, case):
    if 'file' in case:
        p = os.path.join(REPO, case['file'])
        with open(p, 'rb') as fh:
            data = fh.read()
        f = inv.check_gir(data, corpus_dirs())
        print('file:', p)
        for fd in f:
            print('  violation:', fd)
        _replay_with_giscanner(p, f)
        return not f
    print('declaration order (C, as handed to the scanner):')
    print(case_text(case))
    for t in case['comments']:
        print(t)
    if case.get('dump'):
        print('runtime dump:', case['dump'])
    print('note:', case.get('note'))
    status, f, xml, root = run_case(case)
    print('status:', status)
    if status != 'ok':
        print(f)
        return status == 'rejected'
    for fd in f:
        print('  violation:', fd, '->', classify(fd, root))
    if f:
        text = xml.decode('utf-8')
        print(text[text.index('<namespace'):])
    return not f


def _replay_with_giscanner(path, findings):
    """Show, with the repository's own reader, what the flagged references resolve to."""
    try:
        from giscanner.transformer import Transformer
        t = Transformer.parse_from_gir(path, corpus_dirs())
        ns = t.namespace
        for rule, epath, msg in findings:
            if rule == 'type-unknown':
                name = msg.split(':', 1)[0]
                gi = name if '.' in name else '%s.%s' % (ns.name, name)
                try:
                    node = t.lookup_giname(gi)
                except KeyError:
                    node = None
                print('  giscanner: GIRParser reads %r as a reference to %s; Transformer.lookup_giname -> %r' % (name, gi, node))
    except Exception as e:   # noqa
        print('  (giscanner cross-check failed: %s)' % e)
