"""C04 - each public C symbol is described once, under the right name and owner.

Bounded-exhaustive generation-tree search (E1).  Nodes are declaration sets drawn from the
menu of vt/scan/c04_model.py; children extend a set by one menu item with a larger index.
Every node is executed through the real scanner pipeline (Transformer.parse -> GDumpParser ->
MainTransformer -> IntrospectablePass -> GIRWriter) under every prefix configuration, in
every relative order of the typedefs / struct definitions that share a C tag, and - when the
set holds a get-type function - without a runtime dump, with a dump registering classes
(TextBuffer deriving from Text, or both deriving from GObject) and with a dump registering
boxed types.  The emitted GIR is read back with the independent reader and compared with the
reference model of the naming statement.

Family A: all canonical sets of <= K_ALL items of the whole menu, and all canonical sets of
          <= K_CORE items of the interaction core (the Text / TextBuffer family and the
          configuration-specific foreign / unprefixed items).
Family B: a rich fixed context (every type of the menu and both get-type functions) extended by
          all sets of <= KB functions/constants, so that the longest-prefix and ancestor rules
          are exercised with every type present (typedef-first and struct-first orders).

Violations are grouped by signature (kind of mismatch, menu item, what was observed); the key
also names the configurations and dump modes in which the signature occurred, and the smallest
failing input of each signature is kept as the replay case.
"""
import itertools

from vt.core import Part, pmap, rotate, HarnessBroken
from vt.scan import fake, girread
from vt.scan import run as scanrun
from vt.scan import c04_model as M

LEVEL = 'model_checking'

DUMPS = ['none', 'class', 'classflat', 'boxed']
CONTEXT_IDS = ['TD_Text', 'ST_Text', 'TD_TextBuffer', 'ST_TextBuffer', 'TD_TextAlt', 'TA_Anon', 'EN_Mode',
               'TD_Uni', 'U_Uni', 'TD_UIPanel', 'text_get_type', 'tb_get_type']


# ------------------------------------------------------------ one execution ---
def execute(cfg, items, dump):
    decls = M.build_decls(items)
    includes = list(cfg['includes'])
    if dump in ('class', 'classflat'):
        includes.append('GObject-2.0')
    dumpf = None
    if dump != 'none':
        def dumpf(get_types, quarks):
            return M.dump_xml(cfg, dump, get_types)
    res = scanrun.scan(decls, comments=M.build_comments(items), ns=cfg['ns'], identifier_prefixes=list(cfg['ident']),
                       symbol_prefixes=list(cfg['sym']) if cfg['sym'] is not None else None,
                       includes=includes, include_paths=[M.DEPS_C04, M.DEPS],
                       accept_unprefixed=cfg['unprefixed'], dump=dumpf)
    return decls, res


def check_case(cfg, items, dump):
    """-> (bad, model, obs, res, decls).  bad = list of (what, subject, detail, message)."""
    model = M.expectation(cfg, items, dump)
    decls, res = execute(cfg, items, dump)
    if res.error is not None:
        if model.conflict:
            return [], model, None, res, decls
        first = res.error.splitlines()[0]
        return [('abort', '-', first[:60], 'the scanner aborted on a conflict-free declaration set: %s' % first)], \
            model, None, res, decls
    try:
        obs = M.Observation(girread.parse(res.xml))
    except Exception as e:   # noqa
        return [('unreadable', '-', type(e).__name__, 'emitted GIR cannot be read: %s' % e)], model, None, res, decls
    if model.conflict:
        return [], model, obs, res, decls
    return M.compare(model, obs), model, obs, res, decls


# ------------------------------------------------------------- enumeration ---
def class_table(menu):
    t = {}
    for i, it in enumerate(menu):
        c = it.get('cls')
        if c:
            t.setdefault(c, []).append(i)
    return t


def is_canonical(combo, classes):
    """A set is canonical iff, inside every class of items that differ only in an irrelevant
    verb, it uses an initial segment of the class (foo_text_tweak only with foo_text_frob)."""
    s = set(combo)
    for members in classes.values():
        gap = False
        for i in members:
            if i in s:
                if gap:
                    return False
            else:
                gap = True
    return True


def orders(items, full=True):
    """Every relative order of the declarations that share a C tag (typedef before/after the
    struct definition, first/second typedef of one tag); everything else keeps its canonical
    position.  full=False: only 'as listed' and 'every group reversed'."""
    groups = {}
    for pos, it in enumerate(items):
        if it['k'] in ('tds', 'st'):
            groups.setdefault(it['grp'], []).append(pos)
    multi = [g for g in groups.values() if len(g) > 1]
    if not multi:
        return [list(items)]
    if full:
        choices = itertools.product(*[list(itertools.permutations(g)) for g in multi])
    else:
        choices = [[tuple(g) for g in multi], [tuple(reversed(g)) for g in multi]]
    out = []
    for perms in choices:
        arr = list(items)
        for g, perm in zip(multi, perms):
            for slot, src in zip(g, perm):
                arr[slot] = items[src]
        out.append(arr)
    return out


def dumps_for(items):
    if any(it['k'] == 'fn' and M.Model.is_get_type(it) for it in items):
        return DUMPS
    return ['none']


def item_of(items):
    """C name -> menu item id"""
    t = {}
    for it in items:
        t.setdefault(it.get('name') or it['tag'], it['id'])
        if it['k'] == 'st':
            t.setdefault(it['tag'], it['id'])
        for m in it.get('members', ()):
            t[m[0]] = it['id']
    return t


class Sigs(object):
    """Violations grouped by signature; keeps the smallest failing input per signature."""

    def __init__(self):
        self.t = {}

    def add(self, sig, cfgid, dump, rank, key, desc, case):
        e = self.t.get(sig)
        if e is None:
            e = self.t[sig] = {'cfgs': set(), 'dumps': set(), 'n': 0, 'min': None}
        e['cfgs'].add(cfgid)
        e['dumps'].add(dump)
        e['n'] += 1
        cand = (rank, key, desc, case)
        if e['min'] is None or cand[:2] < e['min'][:2]:
            e['min'] = cand

    def merge(self, other):
        for sig, o in other.items():
            e = self.t.get(sig)
            if e is None:
                self.t[sig] = {'cfgs': set(o['cfgs']), 'dumps': set(o['dumps']), 'n': o['n'], 'min': o['min']}
                continue
            e['cfgs'] |= o['cfgs']
            e['dumps'] |= o['dumps']
            e['n'] += o['n']
            if o['min'][:2] < e['min'][:2]:
                e['min'] = o['min']


def run_node(part, sigs, cfg, ci, items, key_ids, fam, full_orders=True):
    """Execute one canonical declaration set in all its orders and dump modes."""
    part.add(states=1, transitions=1)
    any_must = False
    ids = None
    for arr in orders(items, full_orders):
        for dump in dumps_for(arr):
            bad, model, obs, res, decls = check_case(cfg, arr, dump)
            part.add(evaluations=1, traces_validated_against_impl=1)
            if model.conflict:
                part.add(unspecified=1, unspecified_conflicts=1)
            else:
                if model.must_count():
                    any_must = True
                if model.opt_types or any(f['placements'] is None or f.get('soft') for f in model.funcs.values()):
                    part.add(unspecified=1)
            if obs is not None:
                for d in obs.symdefs:
                    if d['tag'] != 'member':
                        part.outcome('%s:%s:%s:%s:%s' % (d['cident'], d['tag'], d['owner'], d['name'],
                                                       'copy' if d['moved_to'] else ''))
                for d in obs.typedefs:
                    part.outcome('%s:%s:%s' % (d['ctype'], d['tag'], d['name']))
            elif res.error is not None:
                part.outcome('abort:' + res.error.splitlines()[0][:60])
            if bad:
                if ids is None:
                    ids = item_of(items)
                key = '%s|%s|%s' % (cfg['id'], dump, '+'.join(it['id'] for it in arr))
                rank = (len(arr), ci)          # smallest input first, then configuration order
                case = None
                for what, subject, detail, msg in bad:
                    sig = '%s:%s:%s' % (what, ids.get(subject, subject), detail)
                    e = sigs.t.get(sig)
                    if e is None or e['min'] is None or (rank, key) < e['min'][:2]:
                        if case is None:
                            case = {'cfg': cfg, 'items': arr, 'dump': dump, 'c': fake.c_of(decls),
                                    'mismatches': [m for _, _, _, m in bad]}
                        sigs.add(sig, cfg['id'], dump, rank, key, msg, case)
                    else:
                        sigs.add(sig, cfg['id'], dump, rank, key, msg, None)
    if any_must:
        part.nontrivial('%s/%s/%s' % (fam, ci, '.'.join(str(i) for i in key_ids)))


def _work(chunk):
    fam, ci, first, k_all, k_core = chunk
    part = Part()
    sigs = Sigs()
    cfg = M.SMALL_CONFIGS[ci - 100] if fam == 'C' else M.CONFIGS[ci]
    menu = M.config_menu(cfg)
    classes = class_table(menu)
    n = len(menu)
    if fam == 'C':
        # every subset of the small API whose smallest element is `first`
        pool = list(range(first + 1, n))
        for size in range(0, n):
            for rest in itertools.combinations(pool, size):
                combo = (first,) + rest
                run_node(part, sigs, cfg, ci, [menu[i] for i in combo], combo, 'C')
        part.sample({'cfg': cfg['id'], 'family': 'C', 'c': fake.c_of(M.build_decls(menu[first:])), 'dump': 'none'})
    elif fam == 'A':
        pool = list(range(first + 1, n))
        core_pool = [i for i in pool if menu[i]['core']]
        for size in range(0, max(k_all, k_core)):
            if size < k_all:
                src = itertools.combinations(pool, size)
            elif menu[first]['core']:
                src = itertools.combinations(core_pool, size)
            else:
                continue
            for rest in src:
                combo = (first,) + rest
                if not is_canonical(combo, classes):
                    part.add(deduplicated=1)
                    continue
                run_node(part, sigs, cfg, ci, [menu[i] for i in combo], combo, 'A')
        part.sample({'cfg': cfg['id'], 'family': 'A', 'c': fake.c_of(M.build_decls([menu[first]])), 'dump': 'none'})
    else:
        ctx_idx = [i for i, it in enumerate(menu) if it['id'] in CONTEXT_IDS]
        ext = [i for i, it in enumerate(menu) if it['id'] not in CONTEXT_IDS and it['k'] in ('fn', 'const')]
        # chunk = all extension sets whose smallest element is ext[first] (first == -1: the bare context)
        if first == -1:
            combos = [()]
        else:
            pool = ext[first + 1:]
            combos = [(ext[first],) + rest for size in range(0, k_all) for rest in itertools.combinations(pool, size)]
        for combo in combos:
            if not is_canonical(combo, classes):
                part.add(deduplicated=1)
                continue
            idx = sorted(set(ctx_idx) | set(combo))
            run_node(part, sigs, cfg, ci, [menu[i] for i in idx], combo, 'B', full_orders=False)
        if first >= 0:
            idx = sorted(set(ctx_idx) | {ext[first]})
            part.sample({'cfg': cfg['id'], 'family': 'B', 'dump': 'class',
                         'c': fake.c_of(M.build_decls([menu[i] for i in idx]))})
    r = part.result()
    r['sigs'] = sigs.t
    return r


def calibrate():
    """DESIGN 2.2: validate the reference naming rule (C name = namespace symbol prefix + owner's
    symbol prefix + GIR name; symbol prefix = underscored type name) against upstream's own
    expected scanner output.  Data only - never a verdict."""
    import glob
    import os
    from vt.core import REPO
    out = {'files': 0, 'callable_names_agree': 0, 'callable_names_differ': 0, 'skipped_moved_or_shadowing': 0,
           'type_prefix_agree': 0, 'type_prefix_differ': 0}
    for f in sorted(glob.glob(os.path.join(REPO, 'tests', 'scanner', '*-expected.gir'))):
        try:
            with open(f, 'rb') as fh:
                ns = girread.parse(fh.read()).find('namespace')
        except Exception:   # noqa
            continue
        out['files'] += 1
        sps = [p for p in (ns.get('c:symbol-prefixes') or '').split(',') if p]
        for t in ns.kids:
            if t.tag not in M.TYPE_TAGS:
                continue
            tp = t.get('c:symbol-prefix')
            nm = t.get('name') or t.get('glib:name')
            if tp is not None and t.get('glib:get-type') not in (None, 'intern'):
                out['type_prefix_agree' if M.camel_to_uscore(nm) == tp else 'type_prefix_differ'] += 1
            for k in t.kids:
                if k.tag not in ('method', 'constructor', 'function') or k.get('c:identifier') is None:
                    continue
                if k.get('moved-to') or k.get('shadows'):
                    out['skipped_moved_or_shadowing'] += 1
                    continue
                tps = ([tp] if tp else []) + [M.camel_to_uscore(nm)]
                hit = any(k.get('c:identifier') == '%s_%s_%s' % (sp, x, k.get('name')) for sp in sps for x in tps)
                out['callable_names_agree' if hit else 'callable_names_differ'] += 1
    return out


def bounds(tier):
    if tier == 'thorough':
        return {'K_ALL': 3, 'K_CORE': 4, 'KB': 3}
    return {'K_ALL': 2, 'K_CORE': 3, 'KB': 2}


def run(ctx):
    b = bounds(ctx.tier)
    configs = list(range(len(M.CONFIGS)))
    chunks = []
    for ci in configs:
        menu = M.config_menu(M.CONFIGS[ci])
        for first in range(len(menu)):
            chunks.append(('A', ci, first, b['K_ALL'], b['K_CORE']))
        ext = [i for i, it in enumerate(menu) if it['id'] not in CONTEXT_IDS and it['k'] in ('fn', 'const')]
        for first in range(-1, len(ext)):
            chunks.append(('B', ci, first, b['KB'], 0))
    for i, c in enumerate(M.SMALL_CONFIGS):
        for first in range(len(M.config_menu(c))):
            chunks.append(('C', 100 + i, first, 0, 0))
    full = M.menu('Foo', 'foo')
    ctx.set(rule='E1 generation tree over declaration sets. Family A: every canonical set of 1..%d declarations from the '
                 'per-configuration menu and every canonical set of 1..%d declarations from its interaction core; '
                 'family B: fixed context of %d declarations (all types, both get-type functions) extended by every set '
                 'of <= %d functions/constants. Each set is executed under each of %d prefix configurations, in every '
                 'relative order of the declarations sharing a C tag (family B: typedef-first and struct-first), and - if '
                 'it has a get-type function - with no dump / class dump (derived and flat hierarchy) / boxed dump; the '
                 'GIR is compared with the reference naming model. Canonical de-duplication: items that differ only in '
                 'an irrelevant verb are used in menu order. non-trivial = set for which the model gave at least one '
                 'MUST (present / left out / placement) verdict. Family C: namespaces scanned without explicit symbol '
                 'prefixes (%s): every subset of an %d-item API spelled with the documented default prefix, all orders '
                 'and dump modes; likewise two configurations of one namespace with nested prefixes (Foo+FooExt / foo+foo_ext, '
                 'both listing orders) over every subset of an %d-item API, and accept-unprefixed mode next to an included '
                 'namespace with empty C prefixes (deps/c04/xdep-1.0.gir) over every subset of a 10-item API; the namespace c:symbol-prefixes / c:identifier-prefixes attributes are compared too '
                 '(in every family)'
                 % (b['K_ALL'], b['K_CORE'], len(CONTEXT_IDS), b['KB'], len(configs),
                    ', '.join('%s->%s' % x for x in M.DEFAULT_PREFIX_NAMES), len(M.DEFAULT_PREFIX_MENU), len(M.NESTED_MENU)),
            bounds={'family_A_max_set_all': b['K_ALL'], 'family_A_max_set_core': b['K_CORE'],
                    'family_B_max_extension': b['KB'], 'configurations': [c['id'] for c in M.CONFIGS],
                    'menu_full': len(full), 'menu_core': len([i for i in full if i['core']]),
                    'menu_per_config': {c['id']: len(M.config_menu(c)) for c in M.CONFIGS},
                    'dump_modes': DUMPS, 'family_C_configurations': [c['id'] for c in M.SMALL_CONFIGS],
                    'family_C_menus': {'default-*': M.DEFAULT_PREFIX_MENU, 'nested-*': M.NESTED_MENU,
                                       'unprefixed-xdep': M.XDEP_MENU}})
    ctx.set(calibration=calibrate())
    sigs = Sigs()
    # big partitions first (family A, small first index), then seed rotation (dispatch order only)
    chunks.sort(key=lambda c: (c[0], c[2], c[1]))
    for r in pmap(_work, rotate(chunks, ctx.seed * 7)):
        sigs.merge(r.pop('sigs'))
        ctx.merge(r)
    allcfg = set(c['id'] for c in M.CONFIGS)
    for sig in sorted(sigs.t):
        e = sigs.t[sig]
        main = e['cfgs'] & allcfg
        where = '+'.join((['all'] if main == allcfg else sorted(main)) + sorted(e['cfgs'] - allcfg))
        where += '/' + ('any-dump' if e['dumps'] == set(DUMPS) else '+'.join(sorted(e['dumps'])))
        size, key, desc, case = e['min']
        ctx.violation('%s@%s' % (sig, where),
                      '%s  [smallest of %d failing inputs: %s]' % (desc, e['n'], key), case)
    ctx.assumptions += [
        'inputs are symbol trees (what the C parser hands to Python), not C text',
        'declaration order: types before functions before constants; only declarations sharing a C tag are permuted',
        'the runtime dump is synthesised: it answers exactly the get-type functions the scanner asks about',
        'default symbol prefix of a namespace = lower-case underscore form of its identifier prefix, a leading capital '
        'followed by another capital being a word of its own (utils.to_underscores docstring; GUdev -> g_udev)',
        'UNSPECIFIED: top-level name collisions (scanner may abort), underscore-prefixed type names and struct tags, '
        'whether a plain function is nested under its longest-prefix type or left at top level, C types known only '
        'under another prefix of the namespace, constructor-looking names other than <type>_new / _new_* / _newv, '
        '(constructor)-annotated functions whose type is not registered or whose name / return type does not fit',
        'several prefixes of the scanned namespace matching one name (nested-* configurations): which one is stripped is '
        'UNSPECIFIED - a GIR name equal to the C name minus either matching prefix is accepted; MUST remain: described '
        'exactly once, c:identifier / c:type, no abort unless some choice of prefixes collides, and a function that is a '
        'method / constructor of its type under both consistent choices (same prefix for identifiers and symbols) is one',
        'dependency GIRs deps/c04/*.gir and deps/*.gir are trusted inputs',
    ]
    if ctx.cov['evaluations'] < 1000 or len(ctx._outcomes) < 60 or len(ctx._nontrivial) < 500:
        raise HarnessBroken('vacuous exploration: %d evaluations, %d outcomes, %d non-trivial' % (
            ctx.cov['evaluations'], len(ctx._outcomes), len(ctx._nontrivial)))


def replay(ctx, case):
    cfg, items, dump = case['cfg'], case['items'], case['dump']
    bad, model, obs, res, decls = check_case(cfg, items, dump)
    print('configuration:', {k: cfg[k] for k in ('id', 'ns', 'ident', 'sym', 'unprefixed', 'includes')}, 'dump:', dump)
    print(fake.c_of(decls))
    if dump != 'none' and res.get_types is not None:
        print(M.dump_xml(cfg, dump, res.get_types))
    if model.conflict:
        print('model: UNSPECIFIED (%s)' % model.conflict)
    if res.error:
        print('scanner error:', res.error)
    if obs is not None:
        for d in obs.typedefs:
            print('  type   %-28s <%s name=%s>' % (d['ctype'], d['tag'], d['name']))
        for d in obs.symdefs:
            print('  symbol %-28s <%s name=%s>%s%s' % (d['cident'], d['tag'], d['name'],
                                                    ' in ' + d['owner'] if d['owner'] else '',
                                                    ' moved-to=' + d['moved_to'] if d['moved_to'] else ''))
        for d in obs.consts:
            print('  const  %-28s name=%s' % (d['cname'], d['name']))
    for cname, f in sorted(model.funcs.items()):
        print('  expect %-28s %s' % (cname, 'UNSPECIFIED (%s)' % f['why'] if f['placements'] is None
                                     else ' or '.join(M.fmt_pl(p) for p in f['placements'])))
    for cname, why in sorted(model.absent.items()):
        print('  expect %-28s left out (%s)' % (cname, why))
    for w, s, d, m in bad:
        print('MISMATCH [%s] %s' % (w, m))
    return not bad
