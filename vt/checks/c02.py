"""C02 - un-annotated declarations get the documented default types, ownership and roles.

Generation-tree search (E1).  Three bounded spaces are enumerated exhaustively, every
element is run through the real scanner pipeline (vt.scan.run.scan) and the emitted GIR,
read with the independent reader, is compared with the reference model of
vt/scan/c02_model.py (written from giannotations.rst and the property statement, calibrated
against tests/scanner/*-expected.gir by vt/scan/c02_calib.py):

 (T) type spelling x position: every base spelling of the reference table (C built-ins,
     stdint, GLib aliases, platform typedefs, void, GStrv, containers, local record / union /
     enum / flags / callback / alias typedefs, foreign typedefs, an unknown typedef) at
     pointer depth 0..2 with every const placement, in parameter / return position of a
     function, a callback typedef (thorough: method, function-pointer field), as struct
     field, fixed-size array field, bit-field, and constant (cast) position (quick: pointer
     depth 2 and the function-pointer-field host only for a representative subset of bases);
 (P) array-declarator parameters `T x[]` / `T x[4]` (adjusted to `T *` by C11 6.7.6.3) in functions, methods,
     callback typedefs and function-pointer fields;
 (D) default ownership after a bare direction annotation ((out), (inout), (out caller-/
     callee-allocates), (in)) - the only way to reach the documented out/inout defaults;
 (A) every sequence (with repetition, hence every arrangement; plus the same slots spelled through local
     typedefs of FooCb / GAsyncReadyCallback / GDestroyNotify (alias depth 1 and 2) / gpointer, up to length 3
     quick / 4 thorough) over {callback, user-data
     gpointer, GDestroyNotify, ordinary parameter, GError**} up to length 4 (quick) / 5
     (thorough), the user-data parameter named user_data / data / foo_data / closure, the
     callback a local typedef or GAsyncReadyCallback, hosted by a function, a callback
     typedef, a method (thorough: a function-pointer field).
"""
import itertools

from vt.core import Part, pmap, chunked, rotate, HarnessBroken
from vt.scan import fake, run as srun, girread
from vt.scan.fake import (Func, Callback, Typedef, Struct, Enum, Const, Field, FieldCb, number, c_of)
from vt.scan import c02_model as M
from vt.scan.c02_model import Sp, ABSENT

LEVEL = 'model_checking'
INCLUDES = ['GLib-2.0', 'GObject-2.0', 'Gio-2.0']

UNAMES = ['user_data', 'data', 'foo_data', 'closure']
DIR_ANNS = ['out', 'inout', 'out caller-allocates', 'out callee-allocates', 'in']
DEPTH2_QUICK = ['char', 'gchar', 'unsigned char', 'int', 'guint8', 'gsize', 'void', 'gpointer', 'gconstpointer',
                'FooRec', 'FooEn', 'FooCb', 'GList', 'GObject', 'GError', 'XUnknown', 'long int', 'uint32_t',
                'gboolean', 'FooInt']
DEPTH3 = ['char', 'gchar', 'void', 'gpointer', 'int', 'guchar']
VFUNC_QUICK = ['int', 'char', 'gpointer', 'gconstpointer', 'void', 'FooRec', 'FooCb', 'GList', 'guint8']
DIR_BASES = ['int', 'char', 'gchar', 'guint8', 'double', 'gboolean', 'FooRec', 'FooOpq', 'FooUni', 'FooRecAlias', 'FooUniAlias', 'FooEn', 'FooCb',
             'FooInt', 'gpointer', 'void', 'GList', 'GHashTable', 'GByteArray', 'GObject', 'GValue', 'GVariant',
             'GQuark', 'XUnknown', 'GStrv']


# ------------------------------------------------------------------ input space ---
PRELUDE = {
    'FooRec': lambda: [Typedef('FooRec', 'struct _FooRec'), Struct('_FooRec', [Field('a', 'int')])],
    'FooOpq': lambda: [Typedef('FooOpq', 'struct _FooOpq')],
    'FooUni': lambda: [Typedef('FooUni', 'union _FooUni'),
                       Struct('_FooUni', [Field('a', 'int'), Field('b', 'double')], union=True)],
    'FooEn': lambda: [Enum('FooEn', [('FOO_EN_A', 0), ('FOO_EN_B', 1)])],
    'FooFl': lambda: [Enum('FooFl', [('FOO_FL_A', 1), ('FOO_FL_B', 2)], bitfield=True)],
    'FooCb': lambda: [Callback('FooCb', 'void', [('int', 'x'), ('gpointer', 'user_data')])],
    'FooInt': lambda: [Typedef('FooInt', 'int')],
    'FooStr': lambda: [Typedef('FooStr', 'char *')],
    'FooRecAlias': lambda: [Typedef('FooRecAlias', 'FooRec')],
    'FooUniAlias': lambda: [Typedef('FooUniAlias', 'FooUni')],
    'FooName': lambda: [Typedef('FooName', M.CONSTPTR_TARGETS['FooName'])],
    'FooGName': lambda: [Typedef('FooGName', M.CONSTPTR_TARGETS['FooGName'])],
    'FooConstRec': lambda: [Typedef('FooConstRec', M.CONSTPTR_TARGETS['FooConstRec'])],
    'FooBytes': lambda: [Typedef('FooBytes', M.CONSTPTR_TARGETS['FooBytes'])],
    # local typedefs of the role types used by the arrangement space (declared after their targets)
    'FooCbAlias': lambda: [Typedef('FooCbAlias', 'FooCb')],
    'FooReadyCb': lambda: [Typedef('FooReadyCb', 'GAsyncReadyCallback')],
    'FooFreeFunc': lambda: [Typedef('FooFreeFunc', 'GDestroyNotify')],
    'FooFreeFunc2': lambda: [Typedef('FooFreeFunc2', 'FooFreeFunc')],
    'FooPtr': lambda: [Typedef('FooPtr', 'gpointer')],
}
ALIAS_MODES = ['D1', 'D2', 'K', 'U', 'K+D2+U']


def prelude(names):
    """Only the local declarations the case refers to (declared before use)."""
    out = []
    for n in PRELUDE:
        if n in names:
            out.extend(PRELUDE[n]())
    return out


def case_needs(case):
    """-> (set of local typedef names, include list)"""
    k = case['kind']
    names = set()
    full = False
    if k in ('type', 'dir', 'aparam'):
        base = case['sp']['base']
        if base in M.LOCAL:
            names.add(base)
            if base in ('FooConstRec', 'FooRecAlias'):
                names.add('FooRec')
            if base == 'FooUniAlias':
                names.add('FooUni')
        full = base in M.FOREIGN
        if case.get('pos') in ('mparam', 'mret') or case.get('host') == 'method':
            names.add('FooRec')
    else:
        al = set(case.get('al', '').split('+')) - {''}
        if 'K' in case['seq'] and case['cb'] == 'C':
            names.add('FooCb')
            if 'K' in al:
                names.add('FooCbAlias')
        if 'K' in case['seq'] and case['cb'] == 'A':
            full = True
            if 'K' in al:
                names.add('FooReadyCb')
        if 'D' in case['seq'] and ('D1' in al or 'D2' in al):
            names.add('FooFreeFunc')
            if 'D2' in al:
                names.add('FooFreeFunc2')
        if 'U' in case['seq'] and 'U' in al:
            names.add('FooPtr')
        if case['host'] == 'method':
            names.add('FooRec')
    return names, (INCLUDES if full else INCLUDES[:1])


def all_bases():
    out = list(M.BASIC) + list(M.LOCAL) + list(M.FOREIGN) + list(M.CONTAINER) + list(M.UNKNOWN) + ['void', 'GStrv']
    return out


def spellings(tier):
    out = []
    for base in all_bases():
        for bq in (False, True):
            out.append(Sp(base, bq, ()))
            for p0 in (False, True):
                out.append(Sp(base, bq, (p0,)))
                if tier == 'thorough' or base in DEPTH2_QUICK:
                    for p1 in (False, True):
                        out.append(Sp(base, bq, (p0, p1)))
        # pointer depth 3 (char ***argvp idiom): the spellings whose mapping is keyed on a
        # pointer level (char, gchar, void, gpointer) and two controls
        if base in DEPTH3:
            for bq in (False, True):
                out.append(Sp(base, bq, (False, False, False)))
                if tier == 'thorough':
                    for ptr in itertools.product((False, True), repeat=3):
                        if any(ptr):
                            out.append(Sp(base, bq, ptr))
                else:
                    out.append(Sp(base, bq, (True, True, False)))
    return out


def positions_for(sp, tier):
    name, kind = M.base_info(sp.base)
    d = sp.depth
    if kind == 'void' and d == 0:
        return [] if sp.bq else ['ret', 'cbret']
    if sp.base == 'va_list':
        return ['param'] if not sp.bq else []
    if sp.base == 'FooOpq' and d == 0:
        return []                      # incomplete type by value is not C
    pos = ['param', 'ret', 'cbparam', 'cbret', 'field', 'farray']
    if tier == 'thorough':
        pos += ['mparam', 'mret', 'vparam', 'vret', 'ufield', 'param2']
    elif sp.base in VFUNC_QUICK and d <= 1:
        pos += ['vparam', 'vret']
    elif kind == 'alias-constptr' and d == 0:
        pos += ['mparam', 'mret', 'vparam', 'vret']
    if d == 0 and kind in ('int', 'enum', 'flags', 'alias-int'):
        pos.append('fbits')
        if not sp.bq:
            pos.append('const')
    return pos


def type_cases(tier):
    out = []
    for sp in spellings(tier):
        for pos in positions_for(sp, tier):
            out.append({'kind': 'type', 'sp': sp.to_json(), 'pos': pos})
    return out


def dir_cases(tier):
    out = []
    hosts = ['func', 'cb', 'method'] if tier == 'thorough' else ['func', 'cb']
    for base in DIR_BASES:
        for bq in (False, True):
            for d in (1, 2):
                if base == 'void' and d == 1 and bq:
                    continue
                sp = Sp(base, bq, (False,) * d)
                for ann in DIR_ANNS:
                    for h in hosts:
                        out.append({'kind': 'dir', 'sp': sp.to_json(), 'ann': ann, 'host': h})
    return out


APARAM_QUICK = [('int', False, ()), ('guint8', False, ()), ('char', False, (False,)), ('char', True, (False,)),
                ('FooRec', False, ()), ('FooRec', False, (False,))]
APARAM_MORE = [('gchar', False, (False,)), ('gchar', True, (False,)), ('int', True, ()), ('double', False, ()),
               ('gpointer', False, ()), ('FooEn', False, ()), ('FooCb', False, ()), ('GObject', False, (False,)),
               ('unsigned char', False, ()), ('int', False, (False,))]


def aparam_cases(tier):
    """Array-declarator parameters `T x[]` / `T x[4]`: C11 6.7.6.3p7 adjusts the parameter's type
    to `T *`, which therefore is the spelling the c:type has to keep."""
    out = []
    elems = APARAM_QUICK + (APARAM_MORE if tier == 'thorough' else [])
    for base, bq, ptr in elems:
        for size in (None, 4):
            for h in ('func', 'cb', 'method', 'vfunc'):
                out.append({'kind': 'aparam', 'sp': Sp(base, bq, ptr).to_json(), 'size': size, 'host': h})
    return out


def arr_cases(tier):
    maxlen = 5 if tier == 'thorough' else 4
    hosts = ['func', 'cb', 'method', 'vfunc'] if tier == 'thorough' else ['func', 'cb', 'method']
    out = []
    for n in range(0, maxlen + 1):
        for seq in itertools.product('KUDOE', repeat=n):
            seq = ''.join(seq)
            cbs = ['C', 'A'] if 'K' in seq else ['C']
            uns = UNAMES if 'U' in seq else ['user_data']
            for cb in cbs:
                for un in uns:
                    for h in hosts:
                        out.append({'kind': 'arr', 'seq': seq, 'cb': cb, 'uname': un, 'host': h})
    # the same slots spelled through local typedefs ("typedef'd" spellings): destroy notify as
    # typedef GDestroyNotify FooFreeFunc (and a typedef of that), callback as a typedef of the
    # local callback / of GAsyncReadyCallback, user data as a typedef of gpointer
    amax = 4 if tier == 'thorough' else 3
    anames = UNAMES if tier == 'thorough' else ['user_data']
    for n in range(1, amax + 1):
        for seq in itertools.product('KUDOE', repeat=n):
            seq = ''.join(seq)
            for al in ALIAS_MODES:
                slots = set(x[0] for x in al.split('+'))
                if not all(x in seq for x in slots):
                    continue
                cbs = ['C', 'A'] if 'K' in seq else ['C']
                uns = anames if 'U' in seq else ['user_data']
                for cb in cbs:
                    for un in uns:
                        for h in hosts:
                            out.append({'kind': 'arr', 'seq': seq, 'cb': cb, 'uname': un, 'host': h, 'al': al})
    return out


# ------------------------------------------------------------------ building ---
def build(case):
    """-> (numbered decls, comments, number of prelude decls)"""
    k = case['kind']
    decls = prelude(case_needs(case)[0])
    npre = len(decls)
    comments = []
    if k == 'type':
        c = Sp.from_json(case['sp']).c()
        pos = case['pos']
        if pos == 'param':
            decls.append(Func('foo_hostfn', 'void', [(c, 'arg')]))
        elif pos == 'param2':
            decls.append(Func('foo_hostfn', 'int', [('int', 'x'), (c, 'arg'), ('const char *', 's')]))
        elif pos == 'ret':
            decls.append(Func('foo_hostfn', c, []))
        elif pos == 'cbparam':
            decls.append(Callback('FooHostCb', 'void', [(c, 'arg')]))
        elif pos == 'cbret':
            decls.append(Callback('FooHostCb', c, [('int', 'x')]))
        elif pos == 'mparam':
            decls.append(Func('foo_rec_hostm', 'void', [('FooRec *', 'self'), (c, 'arg')]))
        elif pos == 'mret':
            decls.append(Func('foo_rec_hostm', c, [('FooRec *', 'self')]))
        elif pos in ('vparam', 'vret', 'field', 'farray', 'fbits', 'ufield'):
            if pos == 'vparam':
                f = FieldCb('vf', 'void', [(c, 'arg')])
            elif pos == 'vret':
                f = FieldCb('vf', c, [('int', 'x')])
            elif pos == 'farray':
                f = Field('fld', c, array=4)
            elif pos == 'fbits':
                f = Field('fld', c, bits=3)
            else:
                f = Field('fld', c)
            u = pos == 'ufield'
            decls.append(Typedef('FooBox', ('union' if u else 'struct') + ' _FooBox'))
            decls.append(Struct('_FooBox', [Field('first', 'int'), f], union=u))
        elif pos == 'const':
            decls.append(Const('FOO_KONST', 5, c))
        else:
            raise ValueError(pos)
    elif k == 'dir':
        c = Sp.from_json(case['sp']).c()
        h = case['host']
        if h == 'func':
            decls.append(Func('foo_hostfn', 'void', [(c, 'arg')]))
            blk = 'foo_hostfn'
        elif h == 'cb':
            decls.append(Callback('FooHostCb', 'void', [(c, 'arg')]))
            blk = 'FooHostCb'
        else:
            decls.append(Func('foo_rec_hostm', 'void', [('FooRec *', 'self'), (c, 'arg')]))
            blk = 'foo_rec_hostm'
        comments.append(srun.comment(srun.block(blk, params=[('arg', '(%s)' % case['ann'])])))
    elif k == 'aparam':
        kids = [] if case['size'] is None else [fake.CS(fake.CSYMBOL_TYPE_CONST, None, None, const_int=case['size'])]
        at = fake.CT(fake.CTYPE_ARRAY, base_type=fake.T(Sp.from_json(case['sp']).c()), child_list=kids)
        h = case['host']
        if h == 'func':
            decls.append(Func('foo_hostfn', 'void', [(at, 'arg')]))
        elif h == 'cb':
            decls.append(Callback('FooHostCb', 'void', [(at, 'arg')]))
        elif h == 'method':
            decls.append(Func('foo_rec_hostm', 'void', [('FooRec *', 'self'), (at, 'arg')]))
        else:
            decls.append(Typedef('FooBox', 'struct _FooBox'))
            decls.append(Struct('_FooBox', [Field('first', 'int'), FieldCb('vf', 'void', [(at, 'arg')])]))
    elif k == 'arr':
        params, roles, names = arr_params(case)
        h = case['host']
        if h == 'func':
            decls.append(Func('foo_hostfn', 'void', params))
        elif h == 'cb':
            decls.append(Callback('FooHostCb', 'void', params))
        elif h == 'method':
            decls.append(Func('foo_rec_hostm', 'void', [('FooRec *', 'self')] + params))
        else:
            decls.append(Typedef('FooBox', 'struct _FooBox'))
            decls.append(Struct('_FooBox', [Field('first', 'int'), FieldCb('vf', 'void', params)]))
    else:
        raise ValueError(k)
    return number(decls), comments, npre


def role_type(case, r):
    """-> (C spelling, expected GI name, plain?) of the slot r under the case's alias mode"""
    for a in case.get('al', '').split('+'):
        if (r, a) in M.ROLE_ALIASES:
            return M.ROLE_ALIASES[(r, a)] + (False,)
    return M.ROLE_TYPES[r] + (True,)


def arr_params(case):
    roles = [case['cb'] if r == 'K' else r for r in case['seq']]
    seen = {}
    params, names = [], []
    for r in roles:
        n = seen.get(r, 0)
        seen[r] = n + 1
        if r in 'CA':
            nm = 'cb' if n == 0 else 'cb%d' % n
        elif r == 'U':
            nm = case['uname'] if n == 0 else 'b%d_%s' % (n, case['uname'])
        elif r == 'D':
            nm = 'notify' if n == 0 else 'notify%d' % n
        elif r == 'O':
            nm = 'x' if n == 0 else 'x%d' % n
        else:
            nm = 'error' if n == 0 else 'error%d' % n
        params.append((role_type(case, r)[0], nm))
        names.append(nm)
    return params, roles, names


# ------------------------------------------------------------------ observation ---
def find_host(root, case):
    """-> the callable / record / constant element under test"""
    ns = root.find('namespace')
    if ns is None:
        return None
    k = case['kind']
    if k == 'type':
        pos = case['pos']
        host = {'param': 'func', 'param2': 'func', 'ret': 'func', 'cbparam': 'cb', 'cbret': 'cb', 'mparam': 'method',
                'mret': 'method', 'vparam': 'vfunc', 'vret': 'vfunc', 'field': 'box', 'farray': 'box',
                'fbits': 'box', 'ufield': 'box', 'const': 'const'}[pos]
    else:
        host = case['host']
    for e in ns.iter():
        if host == 'func' and e.get('c:identifier') == 'foo_hostfn':
            return e
        if host == 'method' and e.get('c:identifier') == 'foo_rec_hostm':
            return e
        if host == 'cb' and e.tag == 'callback' and e.get('c:type') == 'FooHostCb':
            return e
        if host == 'const' and e.tag == 'constant' and e.get('c:type') == 'FOO_KONST':
            return e
        if host == 'box' and e.tag in ('record', 'union') and e.get('c:type') == 'FooBox':
            return e
        if host == 'vfunc' and e.tag in ('record', 'union') and e.get('c:type') == 'FooBox':
            for f in e.findall('field'):
                if f.get('name') == 'vf':
                    return f.find('callback')
            return None
    return None


def tel_facts(t):
    if t is None:
        return None
    inner = t.findall('type') + t.findall('array')
    return {'tag': t.tag, 'name': t.get('name'), 'ctype': t.get('c:type'),
            'zt': t.get('zero-terminated'), 'fixed': t.get('fixed-size'),
            'inner': [(i.tag, i.get('name'), i.get('c:type')) for i in inner]}


class Judge(object):
    """Collects MUST disagreements and UNSPECIFIED counts for one case."""

    def __init__(self):
        self.fails = []      # (aspect, expected, got)
        self.unspec = 0
        self.must = 0

    def eq(self, aspect, expected, got):
        if expected is None:
            self.unspec += 1
            return
        self.must += 1
        if expected == ABSENT:
            if got is not None:
                self.fails.append((aspect, 'absent', got))
        elif expected != got:
            self.fails.append((aspect, expected, got))


def check_type_el(j, tf, exp, what):
    """tf: tel_facts of the outermost type element; exp: M.type_expect(...)"""
    if tf is None:
        j.fails.append((what + ':type element', 'present', None))
        return
    j.eq(what + ':tag', exp['tag'], tf['tag'])
    j.eq(what + ':name', exp['name'], tf['name'])
    j.must += 1
    got = M.ctokens(tf['ctype'])
    if got != exp['ctype']:
        j.fails.append((what + ':c:type', ' '.join(exp['ctype']), tf['ctype']))
    if exp['elem_name'] is not None:
        j.must += 1
        inner = tf['inner']
        if len(inner) != 1 or inner[0][0] != 'type' or inner[0][1] != exp['elem_name']:
            j.fails.append((what + ':element', exp['elem_name'], inner))


def params_of(host):
    ps = host.find('parameters')
    if ps is None:
        return None, []
    return ps.find('instance-parameter'), ps.findall('parameter')


def judge_type(case, host, j):
    sp = Sp.from_json(case['sp'])
    pos = case['pos']
    out = None
    if pos in ('param', 'param2', 'cbparam', 'mparam', 'vparam'):
        inst, ps = params_of(host)
        want = {'param2': ['x', 'arg', 's'], 'vparam': ['arg']}.get(pos, ['arg'])
        got = [p.get('name') for p in ps]
        if sp.base == 'GError' and sp.depth == 2 and pos != 'param2':
            # the parameter under test is a trailing GError**: statement "A trailing GError**
            # parameter is removed and the callable marked as throwing" (const-qualified
            # variants: not fixed)
            if sp.bq or any(sp.ptr):
                j.unspec += 1
                return (pos, 'const-gerror', tuple(got), host.get('throws'))
            j.eq('parameter list', [], got)
            j.eq('throws', '1', host.get('throws'))
            return (pos, 'gerror', tuple(got), host.get('throws'))
        j.eq('throws', ABSENT, host.get('throws'))
        j.eq('parameter list', want, got)
        if pos == 'mparam':
            j.eq('instance parameter', 'self', inst.get('name') if inst is not None else None)
            j.eq('instance parameter:transfer-ownership', 'none',
                 inst.get('transfer-ownership') if inst is not None else None)
        p = [x for x in ps if x.get('name') == 'arg']
        if not p:
            return ('noparam',)
        p = p[0]
        tf = tel_facts(p.type_el())
        check_type_el(j, tf, M.type_expect(sp, 'param'), 'param')
        j.eq('param:transfer-ownership', M.transfer_param(None, False), p.get('transfer-ownership'))
        j.eq('param:direction', ABSENT, None if p.get('direction') in (None, 'in') else p.get('direction'))
        j.eq('param:nullable', M.nullable_expect(sp, 'param'), p.get('nullable'))
        for a in ('closure', 'destroy'):
            j.eq('param:' + a, ABSENT, p.get(a))
        out = (pos, tf and tf['tag'], tf and tf['name'], p.get('transfer-ownership'), p.get('nullable'), p.get('scope'))
    elif pos in ('ret', 'cbret', 'mret', 'vret'):
        r = host.find('return-value')
        if r is None:
            j.fails.append(('return-value', 'present', None))
            return ('noret',)
        tf = tel_facts(r.type_el())
        check_type_el(j, tf, M.type_expect(sp, 'ret'), 'return')
        j.eq('return:transfer-ownership', M.transfer_return(sp), r.get('transfer-ownership'))
        j.eq('return:nullable', M.nullable_expect(sp, 'ret'), r.get('nullable'))
        inst, ps = params_of(host)
        j.eq('parameter list', {'cbret': ['x'], 'vret': ['x']}.get(pos, []), [p.get('name') for p in ps])
        j.eq('throws', ABSENT, host.get('throws'))
        out = (pos, tf and tf['tag'], tf and tf['name'], r.get('transfer-ownership'), r.get('nullable'))
    elif pos in ('field', 'ufield', 'fbits', 'farray'):
        f = [x for x in host.findall('field') if x.get('name') == 'fld']
        j.eq('field list', ['first', 'fld'], [x.get('name') for x in host.findall('field')])
        if not f:
            return ('nofield',)
        f = f[0]
        tf = tel_facts(f.type_el())
        if pos == 'farray':
            if tf is None or tf['tag'] != 'array':
                j.fails.append(('field:array', 'array', tf))
                return ('noarray',)
            j.eq('field:array fixed-size', '4', tf['fixed'])
            j.eq('field:array zero-terminated', '0', tf['zt'])
            j.eq('field:array name', ABSENT, tf['name'])
            inner = f.type_el().type_el()
            itf = tel_facts(inner)
            check_type_el(j, itf, M.type_expect(sp, 'elem'), 'field:array element')
            out = (pos, itf and itf['tag'], itf and itf['name'])
        else:
            check_type_el(j, tf, M.type_expect(sp, 'field'), 'field')
            j.eq('field:bits', '3' if pos == 'fbits' else ABSENT, f.get('bits'))
            out = (pos, tf and tf['tag'], tf and tf['name'], f.get('bits'))
    elif pos == 'const':
        tf = tel_facts(host.type_el())
        check_type_el(j, tf, M.type_expect(sp, 'const'), 'constant')
        out = (pos, tf and tf['tag'], tf and tf['name'])
    return out


def judge_dir(case, host, j):
    sp = Sp.from_json(case['sp'])
    inst, ps = params_of(host)
    p = [x for x in ps if x.get('name') == 'arg']
    j.eq('parameter list', ['arg'], [x.get('name') for x in ps])
    if not p:
        return ('noparam',)
    p = p[0]
    direction = p.get('direction') or 'in'
    ca = p.get('caller-allocates') == '1'
    want_dir = case['ann'].split()[0]
    # the direction itself is C01's subject; the default ownership is evaluated on the
    # direction the scanner reports, and only when that is the annotated one
    if direction != want_dir:
        j.unspec += 1
        return ('dir-not-applied', direction)
    if case['ann'] == 'out caller-allocates' and not ca or case['ann'] == 'out callee-allocates' and ca:
        j.unspec += 1
        return ('alloc-not-applied', direction, ca)
    if case['ann'] == 'out':
        want_ca = M.bare_out_caller_allocates(sp)
        j.eq('param:caller-allocates (bare out)', want_ca, p.get('caller-allocates'))
        if want_ca is not None:
            ca = want_ca == '1'
    j.eq('param:transfer-ownership (%s%s)' % (direction, ', caller-allocates' if ca else ''),
         M.transfer_param(direction, ca), p.get('transfer-ownership'))
    tf = tel_facts(p.type_el())
    exp = M.type_expect(sp, 'param')
    if tf is not None:
        j.must += 1
        if M.ctokens(tf['ctype']) != exp['ctype']:
            j.fails.append(('param:c:type', ' '.join(exp['ctype']), tf['ctype']))
    return ('dir', direction, ca, p.get('transfer-ownership'))


def judge_arr(case, host, j):
    params, roles, names = arr_params(case)
    plain_u = [role_type(case, r)[2] for r in roles]
    exp = M.arrangement_expect(roles, names, plain_u)
    inst, ps = params_of(host)
    j.eq('throws', exp['throws'], host.get('throws'))
    if case['host'] == 'method':
        j.eq('instance parameter', 'self', inst.get('name') if inst is not None else None)
        j.eq('instance parameter:transfer-ownership', 'none',
             inst.get('transfer-ownership') if inst is not None else None)
    else:
        j.eq('instance parameter', ABSENT, inst.get('name') if inst is not None else None)
    got_names = [p.get('name') for p in ps]
    if exp['kept'] is None:
        j.unspec += 1
        return ('two-trailing-errors', host.get('throws'), len(ps))
    kept = exp['kept']
    j.eq('parameter list', [names[i] for i in kept], got_names)
    if [names[i] for i in kept] != got_names:
        return ('paramlist', tuple(got_names))
    sig = []
    for idx, (i, p) in enumerate(zip(kept, ps)):
        r = roles[i]
        tf = tel_facts(p.type_el())
        cspell, giname, plain = role_type(case, r)
        j.eq('param %d (%s):type name' % (idx, names[i]), giname, tf and tf['name'])
        j.eq('param %d (%s):c:type' % (idx, names[i]), M.ctokens(cspell), M.ctokens(tf and tf['ctype']))
        j.eq('param %d (%s):transfer-ownership' % (idx, names[i]), 'none', p.get('transfer-ownership'))
        j.eq('param %d (%s):direction' % (idx, names[i]), ABSENT,
             None if p.get('direction') in (None, 'in') else p.get('direction'))
        cl, de, sc = p.get('closure'), p.get('destroy'), p.get('scope')
        if r in 'CA':
            e = exp['cb'][idx]
            j.eq('param %d (%s):closure' % (idx, names[i]), e['closure'], cl)
            j.eq('param %d (%s):destroy' % (idx, names[i]), e['destroy'], de)
            if e['scope'] == 'call-or-absent':
                j.eq('param %d (%s):scope' % (idx, names[i]), ABSENT, None if sc in (None, 'call') else sc)
            else:
                j.eq('param %d (%s):scope' % (idx, names[i]), e['scope'], sc)
            # whatever was chosen must at least be a parameter of the right kind, after the callback
            for attr, val, role in (('closure', cl, 'U'), ('destroy', de, 'D')):
                if val is not None:
                    j.must += 1
                    ok = val.isdigit() and int(val) < len(kept) and roles[kept[int(val)]] == role and int(val) > idx
                    if not ok:
                        j.fails.append(('param %d (%s):%s target' % (idx, names[i], attr),
                                        'index of a later %s parameter' % ('gpointer' if role == 'U' else 'GDestroyNotify'), val))
            if de is not None:
                j.eq('param %d (%s):scope with destroy' % (idx, names[i]),
                     None if r == 'A' else 'notified', sc)
        elif r == 'U':
            # a typedef of gpointer: whether it still counts as an untyped pointer is not fixed
            j.eq('param %d (%s):nullable' % (idx, names[i]), '1' if plain else None, p.get('nullable'))
            j.eq('param %d (%s):destroy' % (idx, names[i]), ABSENT, de)
            j.eq('param %d (%s):scope' % (idx, names[i]), ABSENT, sc)
            if M.own_user_data_closure(case['host'], r, names[i], plain):
                j.eq('param %d (%s):own closure' % (idx, names[i]), str(idx), cl)
            else:
                j.unspec += 1       # closure attribute on the user-data parameter itself: not fixed
        elif r == 'D':
            j.eq('param %d (%s):closure' % (idx, names[i]), ABSENT, cl)
            j.eq('param %d (%s):destroy' % (idx, names[i]), ABSENT, de)
            j.unspec += 1           # scope of the destroy notify itself: not fixed
        else:
            j.eq('param %d (%s):closure' % (idx, names[i]), ABSENT, cl)
            j.eq('param %d (%s):destroy' % (idx, names[i]), ABSENT, de)
            j.eq('param %d (%s):scope' % (idx, names[i]), ABSENT, sc)
            j.eq('param %d (%s):nullable' % (idx, names[i]), ABSENT, p.get('nullable'))
        sig.append((r, cl, de, sc))
    return ('arr', host.get('throws'), tuple(sig))


def case_key(case):
    k = case['kind']
    if k == 'type':
        return 'type:%s@%s' % (Sp.from_json(case['sp']).c(), case['pos'])
    if k == 'aparam':
        return 'aparam:%s arg[%s]@%s' % (Sp.from_json(case['sp']).c(), '' if case['size'] is None else case['size'],
                                        case['host'])
    if k == 'dir':
        return 'dir:%s (%s)@%s' % (Sp.from_json(case['sp']).c(), case['ann'], case['host'])
    return 'arr:%s/%s/%s@%s%s' % (case['seq'] or '-', case['cb'], case['uname'], case['host'],
                                  ('/typedef=' + case['al']) if case.get('al') else '')


def viol_key(case, aspect, expected, got):
    """Stable key naming the failing input.  Deviations of the type name / c:type that do not
    depend on the position are keyed by (base spelling, kind of deviation) so that one
    systematic deviation is one finding; everything else is keyed by the full case."""
    if case['kind'] in ('type', 'dir') and aspect.endswith('c:type'):
        sp = Sp.from_json(case['sp'])
        exp = expected.split()
        gt = M.ctokens(got)
        if exp and exp[0] == 'const' and exp[1:] == gt:
            return 'ctype:%s:base-const-dropped' % sp.base
        return 'ctype:%s:got %s' % (sp.c(), got)
    if case['kind'] == 'type' and aspect.endswith(':name'):
        sp = Sp.from_json(case['sp'])
        return 'name:%s:depth%d%s:got %s' % (sp.base, sp.depth, ':return' if expected == ABSENT else '', got)
    in_field_cb = case.get('pos') in ('vparam', 'vret') or case.get('host') == 'vfunc'
    if in_field_cb and aspect.endswith(':nullable') and expected == '1' and got is None:
        # one systematic deviation: callbacks written inline in a record field
        return 'nullable:untyped-pointer-in-function-pointer-field'
    return '%s|%s' % (case_key(case), aspect)


def execute(case):
    """-> (Judge, outcome, xml, error)"""
    decls, comments, npre = build(case)
    res = srun.scan(decls, comments, includes=case_needs(case)[1])
    decls = decls[npre:]
    j = Judge()
    if res.error or res.xml is None:
        j.fails.append(('pipeline', 'GIR written', res.error or 'no output'))
        return j, ('crash',), None, res.error, decls
    root = girread.parse(res.xml)
    host = find_host(root, case)
    if host is None:
        j.fails.append(('host element', 'present', None))
        return j, ('nohost',), res.xml, None, decls
    k = case['kind']
    if k == 'aparam':
        sp = Sp.from_json(case['sp'])
        adjusted = Sp(sp.base, sp.bq, sp.ptr + (False,))        # T x[] / T x[N]  ==  T *x
        pos = {'func': 'param', 'cb': 'cbparam', 'method': 'mparam', 'vfunc': 'vparam'}[case['host']]
        out = ('aparam',) + tuple(judge_type({'kind': 'type', 'sp': adjusted.to_json(), 'pos': pos}, host, j) or ())
    elif k == 'type':
        out = judge_type(case, host, j)
    elif k == 'dir':
        out = judge_dir(case, host, j)
    else:
        out = judge_arr(case, host, j)
    return j, out, res.xml, None, decls


def _work(chunk):
    part = Part()
    for n, case in enumerate(chunk):
        j, out, xml, err, decls = execute(case)
        # determinism: a second run of the first case of each chunk must give the same bytes
        if n == 0:
            j2, out2, xml2, err2, _ = execute(case)
            part.add(evaluations=1)
            if xml2 != xml:
                part.violation(case_key(case) + '|determinism', 'two runs of the same input differ', case)
        part.add(evaluations=1, states=1, transitions=1, traces_validated_against_impl=1, unspecified=j.unspec,
                 must_checks=j.must)
        part.add(**{'cases_' + case['kind']: 1})
        part.outcome(out)
        if j.must:
            part.nontrivial(case_key(case))
        for aspect, expected, got in j.fails:
            part.violation(viol_key(case, aspect, expected, got),
                           '%s: %s: expected %r, scanner wrote %r' % (case_key(case), aspect, expected, got), case)
        if n % 97 == 0:
            part.sample({'case': case_key(case), 'c': c_of(decls)})
    return part.result()


def run(ctx):
    from vt.scan import c02_calib
    calib = c02_calib.calibrate()
    cases = type_cases(ctx.tier) + dir_cases(ctx.tier) + aparam_cases(ctx.tier) + arr_cases(ctx.tier)
    nsp = len(spellings(ctx.tier))
    ctx.set(rule='every (type spelling x position), every (pointer spelling x bare direction annotation x host) and every '
                 'role sequence x user-data name x callback type x host is scanned by the real pipeline and each emitted '
                 'attribute (type name, c:type, array-ness, transfer-ownership, nullable, direction, closure, destroy, '
                 'scope, throws, parameter list, bits, fixed-size) is compared with the three-valued reference model; '
                 'non-trivial = case with at least one MUST/MUST-NOT observable',
            bounds={'tier': ctx.tier, 'base_spellings': len(all_bases()), 'spellings': nsp,
                    'pointer_depth': 2, 'pointer_depth3_bases': DEPTH3, 'depth2_bases': 'all' if ctx.tier == 'thorough' else DEPTH2_QUICK,
                    'type_cases': len(type_cases(ctx.tier)), 'dir_cases': len(dir_cases(ctx.tier)), 'array_declarator_param_cases': len(aparam_cases(ctx.tier)),
                    'arrangement_max_params': 5 if ctx.tier == 'thorough' else 4,
                    'arrangement_cases': len(arr_cases(ctx.tier)), 'user_data_names': UNAMES,
                    'callback_types': ['FooCb (local typedef)', 'GAsyncReadyCallback']},
            calibration=calib)
    if calib['hard_mismatches']:
        raise HarnessBroken('reference table contradicts upstream expected GIRs: %r' % (calib['hard_mismatches'][:5],))
    chunks = rotate(chunked(cases, 96), ctx.seed)
    for r in pmap(_work, chunks):
        ctx.merge(r)
    ctx.assumptions += [
        'inputs are symbol trees as the C parser would deliver them (vt/scan/fake.py), not C text',
        'miniature dependency GIRs deps/{GLib,GObject,Gio}-2.0.gir stand for the real ones',
        'c:type is compared token-wise (white space is not part of a spelling)',
        'UNSPECIFIED (executed, not judged): names of C synonyms without a documented target (long int, short int, '
        'long long, long double), transfer of returned records/objects/containers/enums/pointers to basic values/'
        'string arrays, closure detection for user-data names other than user_data and for non-adjacent or ambiguous '
        'candidates, scope of an async callback that also has a destroy notify, scope of GDestroyNotify parameters, '
        'closure attribute on a user-data parameter of a function/method or on one not named user_data, pointers to GStrv, nullability of callbacks and GCancellable',
        'out/inout defaults are reached through a bare direction annotation; the direction and caller-allocates flag '
        'are read from the output (they are property C01) and only the default ownership is judged',
    ]
    if len(ctx._outcomes) < 40 or not ctx._nontrivial:
        raise HarnessBroken('vacuous exploration: %d outcomes' % len(ctx._outcomes))


def replay(ctx, case):
    j, out, xml, err, decls = execute(case)
    print('case:', case_key(case))
    print(c_of(decls))
    _, comments, _n = build(case)
    for c in comments:
        print(c[0])
    if err:
        print('pipeline error:', err)
    if xml:
        root = girread.parse(xml)
        host = find_host(root, case)
        if host is not None:
            import json
            print(json.dumps(host.dump(), indent=None)[:3000])
    print('observed outcome:', out)
    for aspect, expected, got in j.fails:
        print('MISMATCH %s: expected %r, scanner wrote %r' % (aspect, expected, got))
    print('MUST observables: %d, UNSPECIFIED: %d' % (j.must, j.unspec))
    return not j.fails
