"""C06 - a compiled typelib encodes exactly the API of the GIR it came from.

Generation-tree search (E1) on the C side: every element kind with the cross product
of its own attributes (vt/c/gens.py) is rendered to GIR by an independent writer
(vt/girgen.py), compiled by g-ir-compiler rebuilt from /repo, decoded field by field
by an independent decoder (vt/typelib.py) and compared with the expected model.
"""
import os

from vt import girgen, typelib
from vt.c import build as cbuild, gens, tools
from vt.core import Part, pmap, chunked, rotate, HarnessBroken

LEVEL = 'model_checking'
BATCH = 40


def make_doc(keys, table):
    # 'solo:' documents contain nothing but their own entries (the support entries would add enum members, which
    # carry compiler-generated c:identifier attributes, to the attribute table)
    if len(keys) == 1 and isinstance(table[keys[0]], girgen.Doc):
        return table[keys[0]]         # a generator may supply the whole document (its includes are the point)
    support = [] if all(k.startswith('solo:') for k in keys) else list(gens.SUPPORT)
    names = support + [k for k in keys if k not in gens.SUPPORT]
    entries = []
    for k in names:
        e = table[k]
        entries.extend(e if isinstance(e, list) else [e])
    return girgen.Doc('Test', '1.0', entries, includes=[('GObject', '2.0'), ('GLib', '2.0')],
                      shared_library='libtest.so.0', c_prefix='C', symbol_prefix='c')


def batch_keys(keys, size):
    """Keys starting with 'solo:' are compiled alone (their document shape is the point), the rest in batches."""
    solo = [[k] for k in keys if k.startswith('solo:')]
    rest = [k for k in keys if not k.startswith('solo:')]
    return [rest[i:i + size] for i in range(0, len(rest), size)] + solo


def check_doc(b, doc, wd, twice=True):
    """-> list of (problem_kind, text)"""
    xml = doc.xml()
    rc, err, data = tools.compile_gir(b, xml, wd)
    probs = []
    if rc != 0 or data is None:
        return [('rejected', 'compiler exit %d: %s' % (rc, err.strip()[-400:]))], xml
    if err.strip():
        probs.append(('stderr', err.strip()[-400:]))
    model, fprobs = typelib.decode(data)
    for p in fprobs:
        probs.append(('format', p))
    if model is None:
        return probs, xml
    for d in girgen.match_doc(doc, model, typelib):
        probs.append(('content', d))
    if twice:
        rc2, err2, data2 = tools.compile_gir(b, xml, wd)
        if data2 != data:
            probs.append(('nondeterministic', 'compiling the same GIR twice gave different bytes'))
    return probs, xml


def classify(key, text):
    """stable violation key: entry key + the field path without values"""
    head = text.split(':', 1)[0]
    return '%s|%s' % (key, head)


def _work(chunk):
    part = Part()
    tier, asan, batches = chunk
    b = cbuild.build(asan)
    table = dict(gens.all_entries(tier))
    wd = tools.workdir('c06')
    try:
        for keys in batches:
            doc = make_doc(keys, table)
            probs, xml = check_doc(b, doc, wd)
            part.add(evaluations=1, transitions=len(keys), traces_validated_against_impl=len(keys), states=len(keys))
            for k in keys:
                part.nontrivial(k)
            part.outcome(('batch', bool(probs)))
            if not probs:
                continue
            # isolate: re-run each entry alone to obtain a minimal replayable case
            for k in keys:
                d1 = make_doc([k], table)
                p1, xml1 = check_doc(b, d1, wd, twice=False)
                part.add(evaluations=1)
                for kind, text in p1:
                    part.outcome((kind, text.split(':', 1)[0][:60]))
                    part.violation('%s:%s' % (kind, classify(k, text)), text, {'entry': k, 'tier': tier, 'gir': xml1})
            if not any(True for _ in part.violations):
                # only reproducible in the batch
                for kind, text in probs:
                    part.violation('%s:batch:%s' % (kind, text.split(':', 1)[0]), text, {'entries': keys, 'tier': tier, 'gir': xml})
        if batches:
            part.sample({'entries': batches[0][:3], 'gir_excerpt': make_doc(batches[0][:1], table).xml()[-600:]})
    finally:
        tools.cleanup(wd)
    return part.result()


def run(ctx):
    thorough = ctx.tier == 'thorough'
    b = cbuild.build(False)
    if thorough:
        cbuild.build(True)
    entries = gens.all_entries(ctx.tier)
    keys = [k for k, e in entries if k not in gens.SUPPORT]
    batches = batch_keys(keys, BATCH)
    ctx.set(rule='every entry produced by vt/c/gens.py (one element kind at a time, cross product of its own attributes; '
                 '%s domains) is compiled in batches of %d by the rebuilt g-ir-compiler%s, decoded by vt/typelib.py, '
                 'checked against the format invariants and matched against the expected model; each batch is compiled '
                 'twice for byte identity. non-trivial = every entry (each carries at least one MUST fact)'
                 % ('full' if thorough else 'trimmed', BATCH, ' (ASan+UBSan build)' if thorough else ''),
            bounds={'entries': len(keys), 'batch': BATCH, 'asan': thorough})
    chunks = [(ctx.tier, thorough, c) for c in chunked(rotate(batches, ctx.seed), 16 if not thorough else 48)]
    for r in pmap(_work, chunks):
        ctx.merge(r)
    ctx.assumptions += [
        'glibshim headers declare the GLib ABI correctly (trusted base)',
        'miniature dependency GIRs in deps/ stand in for GLib/GObject',
        'decoder vt/typelib.py written from gitypelib-internal.h is the reference reader; x86-64 little-endian only',
        'FieldBlob.bits, FunctionBlob finish/sync/async links and the pointer flag of arrays are not fixed by the statement (UNSPECIFIED)',
    ]
    if ctx.cov['evaluations'] < 10:
        raise HarnessBroken('too few compiler runs')


def replay(ctx, case):
    b = cbuild.build(False)
    wd = tools.workdir('c06r')
    try:
        xml = case['gir']
        rc, err, data = tools.compile_gir(b, xml, wd)
        print('compiler exit', rc, err.strip()[-300:])
        if 'entry' in case:
            table = dict(gens.all_entries(case.get('tier', 'quick')))
            doc = make_doc([case['entry']], table)
            probs, _ = check_doc(b, doc, wd)
            for p in probs:
                print('  ', p)
            return not probs
        return rc == 0
    finally:
        tools.cleanup(wd)
