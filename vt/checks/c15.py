"""C15 - whatever the scanner writes, the typelib compiler accepts.

Both tools are real code from /repo: namespaces generated from the declaration DSL go
through the full scanner pipeline (vt/scan/run.py), the emitted GIR is compiled by the
rebuilt g-ir-compiler, the typelib is decoded by the independent decoder and compared
with the expectation derived from the GIR text itself (vt/c/gir2expect.py): every
element the GIR leaves introspectable must be present with the flags the GIR states,
every element marked introspectable="0" must be absent.  Plus the scanner-written
tests/scanner/*-expected.gir files whose includes can be satisfied.
"""
import glob
import itertools
import os

from vt import girgen, typelib
from vt.c import build as cbuild, tools, gir2expect
from vt.core import Part, pmap, chunked, rotate, HarnessBroken, REPO, ROOT
from vt.scan import fake
from vt.scan import run as scanrun
from vt.scan.fake import Func, Callback, Typedef, Struct, TypedefAnon, Enum, Const, Field, FieldCb, Macro, number

LEVEL = 'model_checking'
DEPS = os.path.join(ROOT, 'deps')

BASE = [
    lambda: Typedef('FooRec', 'struct _FooRec'),
    lambda: Struct('_FooRec', [Field('x', 'int'), Field('name', 'char*'), Field('priv', 'gpointer', private=True)]),
    lambda: Enum('FooKind', [('FOO_KIND_A', 0), ('FOO_KIND_B', 1)]),
    lambda: Callback('FooFunc', 'void', [('FooRec*', 'rec'), ('gpointer', 'user_data')]),
]

OBJ_DECLS = [
    lambda: Typedef('FooObj', 'struct _FooObj'),
    lambda: Typedef('FooObjClass', 'struct _FooObjClass'),
    lambda: Struct('_FooObj', [Field('parent_instance', 'GObject')]),
    lambda: Struct('_FooObjClass', [Field('parent_class', 'GObjectClass'),
                                    FieldCb('frob', 'void', [('FooObj*', 'self'), ('int', 'n')]),
                                    FieldCb('other', 'int', [('int', 'not_self')])]),
    lambda: Func('foo_obj_get_type', 'GType', []),
    lambda: Func('foo_obj_new', 'FooObj*', []),
    lambda: Func('foo_obj_new_with_size', 'FooObj*', [('int', 'size')]),      # (rename-to foo_obj_new): a shadowing constructor
    lambda: Func('foo_obj_frob', 'void', [('FooObj*', 'self'), ('int', 'n')]),
    lambda: Func('foo_obj_get_size', 'int', [('FooObj*', 'self')]),
    lambda: Func('foo_obj_set_size', 'void', [('FooObj*', 'self'), ('int', 'size')]),
]
OBJ_DUMP = ('<?xml version="1.0"?><repository>'
            '<class name="FooObj" get-type="foo_obj_get_type" parents="GObject">'
            '<property name="size" type="gint" flags="3" default-value="0"/>'
            '<property name="label" type="gchararray" flags="11"/>'
            '<signal name="changed" return="void" when="last"><param type="gint"/></signal>'
            '<signal name="query" return="gboolean" when="first" detailed="1"><param type="gchararray"/></signal>'
            '</class></repository>')

MENU = [
    ('fn-basic', lambda: Func('foo_add', 'int', [('int', 'a'), ('unsigned long', 'b')])),
    ('fn-str', lambda: Func('foo_name', 'const char*', [('const char*', 's')])),
    ('fn-strdup', lambda: Func('foo_dup', 'char*', [('const char*', 's'), ('GError**', 'error')])),
    ('fn-strv', lambda: Func('foo_list_names', 'char**', [])),
    ('fn-out', lambda: Func('foo_get_xy', 'void', [('int*', 'x'), ('double*', 'y')])),
    ('fn-rec', lambda: Func('foo_rec_copy', 'FooRec*', [('FooRec*', 'self')])),
    ('fn-rec-new', lambda: Func('foo_rec_new', 'FooRec*', [])),
    ('fn-enum', lambda: Func('foo_kind_next', 'FooKind', [('FooKind', 'k')])),
    ('fn-cb', lambda: Func('foo_each', 'void', [('FooFunc', 'func'), ('gpointer', 'user_data')])),
    ('fn-cb-notify', lambda: Func('foo_each_full', 'void', [('FooFunc', 'func'), ('gpointer', 'user_data'), ('GDestroyNotify', 'notify')])),
    ('fn-async', lambda: Func('foo_do_async', 'void', [('GCancellable*', 'c'), ('GAsyncReadyCallback', 'cb'), ('gpointer', 'user_data')])),
    ('fn-list', lambda: Func('foo_items', 'GList*', [('GSList*', 'in')])),
    ('fn-hash', lambda: Func('foo_table', 'GHashTable*', [])),
    ('fn-arrays', lambda: Func('foo_bytes', 'GByteArray*', [('GPtrArray*', 'p'), ('GArray*', 'a')])),
    ('fn-varargs', lambda: Func('foo_printf', 'void', [('const char*', 'fmt')], varargs=True)),
    ('fn-unknown', lambda: Func('foo_mystery', 'BarThing*', [('BazThing', 't')])),
    ('fn-ptrs', lambda: Func('foo_ptrs', 'gpointer', [('gconstpointer', 'p'), ('void**', 'pp'), ('guint8*', 'data'), ('gsize', 'len')])),
    ('fn-gobject', lambda: Func('foo_use_object', 'GObject*', [('GObject*', 'o'), ('GVariant*', 'v'), ('GClosure*', 'c')])),
    ('fn-bool', lambda: Func('foo_flag', 'gboolean', [('_Bool', 'b'), ('gunichar', 'c'), ('gint64', 'big'), ('guint8', 'small')])),
    ('fn-intptr', lambda: Func('foo_ptrint', 'gintptr', [('guintptr', 'u'), ('gssize', 's'), ('gsize', 'z'), ('gintptr*', 'out')])),
    ('rec-intptr', lambda: TypedefAnon('FooPtrInts', [Field('c', 'gint8'), Field('i', 'gintptr'), Field('u', 'guintptr'), Field('t', 'gint8')])),
    ('fn-longlong', lambda: Func('foo_wide', 'long long', [('long double', 'x')])),
    ('fn-underscore', lambda: Func('_foo_private', 'void', [])),
    ('fn-inline', lambda: Func('foo_inline', 'int', [], inline=True)),
    ('cb-ret', lambda: Callback('FooCompare', 'int', [('gconstpointer', 'a'), ('gconstpointer', 'b')])),
    ('cb-cb', lambda: Callback('FooNested', 'void', [('FooFunc', 'inner'), ('gpointer', 'user_data'), ('GDestroyNotify', 'destroy')])),
    ('alias-int', lambda: Typedef('FooCount', 'guint')),
    ('alias-chain', lambda: Typedef('FooCount2', 'FooCount')),
    ('alias-ptr', lambda: Typedef('FooHandle', 'gpointer')),
    # uses of a typedef of a typedef, and of a typedef of a local record, as parameter / return / field type
    ('alias-chain-fn', lambda: Func('foo_count_next', 'FooCount2', [('FooCount2', 'c'), ('FooCount', 'd')])),
    ('alias-chain-field', lambda: TypedefAnon('FooCounted', [Field('c2', 'FooCount2'), Field('c1', 'FooCount'), Field('n', 'int')])),
    ('alias-rec', lambda: Typedef('FooRecAlias', 'FooRec')),
    ('alias-rec-fn', lambda: Func('foo_rec_alias_get', 'FooRecAlias*', [('FooRecAlias*', 'r')])),
    ('alias-rec-field', lambda: TypedefAnon('FooRecHolder', [Field('p', 'FooRecAlias*'), Field('n', 'int')])),
    ('union', lambda: TypedefAnon('FooVal', [Field('i', 'int'), Field('d', 'double'), Field('p', 'gpointer')], union=True)),
    ('rec-anon', lambda: TypedefAnon('FooPoint', [Field('x', 'int'), Field('y', 'int'), Field('bits', 'guint', bits=3)])),
    ('rec-cbfield', lambda: TypedefAnon('FooVTable', [FieldCb('open', 'int', [('const char*', 'path')]), Field('data', 'gpointer'),
                                                      FieldCb('close', 'void', [('gpointer', 'data')])])),
    ('rec-array', lambda: TypedefAnon('FooBuf', [Field('data', 'guint8', array=16), Field('names', 'char*', array=2), Field('n', 'gsize')])),
    ('rec-embed', lambda: TypedefAnon('FooOuter', [Field('inner', 'FooRec'), Field('ptr', 'FooRec*'), Field('kind', 'FooKind')])),
    # a field the scanner marks introspectable="0" (unknown type) in front of an array whose length names a later field
    ('rec-hidden-field', lambda: TypedefAnon('FooCookie', [Field('cookie', 'BarThing*'), Field('n_items', 'guint'),
                                                             Field('items', 'int*'), Field('tail', 'int')])),
    ('rec-opaque', lambda: Typedef('FooOpaque', 'struct _FooOpaque')),
    ('rec-disguised', lambda: Typedef('FooPtr', 'struct _FooPtrStruct*')),
    ('enum-neg', lambda: Enum('FooSigned', [('FOO_SIGNED_MINUS', -1), ('FOO_SIGNED_BIG', 2147483647)])),
    ('enum-big', lambda: Enum('FooBig', [('FOO_BIG_A', 0), ('FOO_BIG_B', 4294967295)])),
    ('flags', lambda: Enum('FooFlags', [('FOO_FLAGS_A', 1), ('FOO_FLAGS_B', 2), ('FOO_FLAGS_ALL', 3)], bitfield=True)),
    ('enum-one', lambda: Enum('FooSingle', [('FOO_SINGLE_ONLY', 5)])),
    ('const-int', lambda: Const('FOO_MAX', 100)),
    ('const-neg', lambda: Const('FOO_MIN', -5)),
    ('const-u8', lambda: Const('FOO_BYTE', 200, 'guint8')),
    ('const-u64', lambda: Const('FOO_BIGU', 18446744073709551615, 'guint64')),
    ('const-i64', lambda: Const('FOO_BIGI', -9223372036854775808, 'gint64')),
    ('const-str', lambda: Const('FOO_NAME', 'foo "bar" <&>')),
    ('const-empty', lambda: Const('FOO_EMPTY', '')),
    ('const-strnl', lambda: Const('FOO_TEXT', 'line1\nline2\ttab')),
    ('const-dbl', lambda: Const('FOO_PI', 3.25)),
    ('const-bool', lambda: Const('FOO_YES', True)),
    ('const-unichar', lambda: Const('FOO_CHAR', 65, 'gunichar')),
    ('const-alias', lambda: Const('FOO_COUNT_MAX', 7, 'FooCount')),
    ('macro', lambda: Macro('FOO_IS_THING', ['obj'])),
    # a constant cast to a type that is visible to the C parser but declared in a header that is not scanned
    ('const-foreign-type', lambda: Const('FOO_EXT_MAX', 7, 'ExtCount')),
]
COMMENTS = {
    'fn-out': scanrun.block('foo_get_xy', [('x', '(out) (optional)'), ('y', '(out caller-allocates)')]),
    'fn-rec': scanrun.block('foo_rec_copy', [('self', '')], ret=('(transfer full) (nullable)',), tags=[('Since', '1.2'), ('Deprecated', '1.4: no')]),
    'fn-list': scanrun.block('foo_items', [('in', '(element-type utf8) (transfer none)')], ret=('(element-type FooRec) (transfer container)',)),
    'fn-hash': scanrun.block('foo_table', [], ret=('(element-type utf8 gint) (transfer full)',)),
    'fn-arrays': scanrun.block('foo_bytes', [('p', '(element-type FooRec)'), ('a', '(element-type gint)')], ret=('(transfer none)',)),
    'fn-ptrs': scanrun.block('foo_ptrs', [('data', '(array length=len)'), ('len', ''), ('pp', '(out) (nullable)')],
                         ret=('(transfer none)',), ident_ann='(attributes key=value other=x)'),
    'fn-cb': scanrun.block('foo_each', [('func', '(scope call)'), ('user_data', '')]),
    'fn-strv': scanrun.block('foo_list_names', [], ret=('(array zero-terminated=1) (transfer full)',)),
    'fn-basic': scanrun.block('foo_add', [('a', ''), ('b', '(skip)')], ident_ann='(rename-to foo_name)'),
    'fn-unknown': scanrun.block('foo_mystery', [('t', '')], ident_ann='(skip)'),
    'const-int': scanrun.block('FOO_MAX', [], tags=[('Deprecated', '2.0: gone')]),
    'rec-anon': scanrun.block('FooPoint', [], ident_ann='(attributes rk=rv)'),
    'rec-hidden-field': scanrun.block('FooCookie', [('items', '(array length=n_items)')]),
    'enum-neg': scanrun.block('FooSigned', [], tags=[('Since', '0.5')]),
}


# menu items that mention a type another item declares: a header using the name without the
# declaration would not be valid C, so subsets are closed under these requirements
REQUIRES = {'alias-chain': ('alias-int',), 'const-alias': ('alias-int',),
            'alias-chain-fn': ('alias-int', 'alias-chain'), 'alias-chain-field': ('alias-int', 'alias-chain'),
            'alias-rec-fn': ('alias-rec',), 'alias-rec-field': ('alias-rec',)}


def close(keys):
    out = list(keys)
    for k in keys:
        for r in REQUIRES.get(k, ()):
            if r not in out:
                out.append(r)
    order = [k for k, f in MENU]
    return tuple(sorted(set(out), key=order.index))


def build_case(keys, with_obj):
    decls = [f() for f in BASE]
    if with_obj:
        decls += [f() for f in OBJ_DECLS]
    table = dict(MENU)
    decls += [table[k]() for k in keys]
    number(decls)
    comments = [scanrun.comment(COMMENTS[k], line=100 + 40 * i) for i, k in enumerate(keys) if k in COMMENTS]
    if with_obj:
        comments.append(scanrun.comment(scanrun.block('FooObj:size', [], ident_ann='(attributes pk=pv)'), line=900))
        comments.append(scanrun.comment(scanrun.block('FooObj::changed', [('n', '')], tags=[('Deprecated', '1.0')]), line=920))
        comments.append(scanrun.comment(scanrun.block('foo_obj_new_with_size', [('size', '')], ident_ann='(rename-to foo_obj_new)'), line=940))
    return decls, comments


def check_gir(b, xml_bytes, wd, search_dirs, name):
    """-> list of (kind, text)"""
    probs = []
    rc, err, data = tools.compile_gir(b, xml_bytes.decode('utf-8'), wd, name=name, includedirs=[d for d in search_dirs if d != DEPS])
    if rc != 0 or data is None:
        return [('rejected', 'compiler exit %d: %s' % (rc, err.strip()[-500:]))]
    if err.strip():
        probs.append(('stderr', err.strip()[-500:]))
    model, fprobs = typelib.decode(data)
    for p in fprobs:
        probs.append(('format', p))
    if model is None:
        return probs
    exp, ctx = gir2expect.expect(xml_bytes, search_dirs)
    for d in girgen.match_model(exp, model):
        probs.append(('content', d))
    return probs


def norm(text):
    import re
    return re.sub(r'\d+', 'N', text.split(':', 1)[0])[:120]


def _work(chunk):
    part = Part()
    asan, cases = chunk
    b = cbuild.build(asan)
    wd = tools.workdir('c15')
    try:
        for keys, with_obj in cases:
            decls, comments = build_case(keys, with_obj)
            r = scanrun.scan(decls, comments, includes=['Gio-2.0'] if not with_obj else ['Gio-2.0', 'GObject-2.0'],
                         dump=OBJ_DUMP if with_obj else None, shared_libraries=['libfoo.so'])
            part.add(evaluations=1, states=1, transitions=len(keys))
            if r.error or r.xml is None:
                part.outcome(('scanner-error', (r.error or '')[:40]))
                part.add(unspecified=1)     # a scanner crash is not C15's subject (no GIR was emitted)
                continue
            probs = check_gir(b, r.xml, wd, [DEPS], 'Foo-1.0')
            part.add(traces_validated_against_impl=1)
            part.nontrivial(repr((keys, with_obj)))
            part.outcome(tuple(sorted(set(p[0] for p in probs))))
            for kind, text in probs:
                part.violation('%s:%s|%s' % (kind, '+'.join(keys) + ('+obj' if with_obj else ''), norm(text)), text,
                               {'keys': list(keys), 'with_obj': with_obj, 'c': fake.c_of(decls),
                                'comments': [c[0] for c in comments]})
        if cases:
            d, c = build_case(*cases[0])
            part.sample({'c': fake.c_of(d)[-500:], 'comments': [x[0] for x in c][:2]})
    finally:
        tools.cleanup(wd)
    return part.result()


# ---- annotated-site family: one function, one annotated site, every annotation (and the interacting pairs) ----------
SITE_FUNCS = {
    # site -> (declaration factory, parameter name or None for the return value)
    'bytes-in': (lambda: Func('foo_site_a', 'void', [('guint8*', 'data'), ('gsize', 'len'), ('int', 'n')]), 'data'),
    'strv-out': (lambda: Func('foo_site_b', 'void', [('char***', 'strs'), ('gsize*', 'len')]), 'strs'),
    'ret-strv': (lambda: Func('foo_site_c', 'char**', [('gsize*', 'len'), ('int', 'n')]), None),
    'ret-str': (lambda: Func('foo_site_d', 'char*', [('int', 'n')]), None),
    'rec-in': (lambda: Func('foo_site_e', 'void', [('FooRec*', 'rec'), ('int', 'n')]), 'rec'),
    'rec-out': (lambda: Func('foo_site_f', 'void', [('FooRec**', 'rec'), ('int', 'n')]), 'rec'),
    'cb': (lambda: Func('foo_site_g', 'void', [('FooFunc', 'func'), ('gpointer', 'ctx'), ('GDestroyNotify', 'dn'), ('int', 'n')]), 'func'),
    'int-in': (lambda: Func('foo_site_h', 'int', [('int', 'v'), ('int*', 'w')]), 'w'),
    'list-ret': (lambda: Func('foo_site_i', 'GList*', [('int', 'n')]), None),
    'ptr-in': (lambda: Func('foo_site_j', 'gpointer', [('gpointer', 'p'), ('gsize', 'len')]), 'p'),
}
SITE_ANNS = ['(skip)', '(nullable)', '(optional)', '(allow-none)', '(not nullable)', '(out)', '(inout)', '(out caller-allocates)',
             '(out callee-allocates)', '(transfer none)', '(transfer full)', '(transfer container)', '(transfer floating)',
             '(array)', '(array length=len)', '(array fixed-size=4)', '(array zero-terminated=1)', '(array zero-terminated=0)',
             '(array length=len zero-terminated=1)', '(array length=len zero-terminated=0)',
             '(array fixed-size=4 zero-terminated=1)', '(array length=len fixed-size=4)', '(array length=n)',
             '(element-type utf8)', '(element-type guint8)', '(element-type FooRec)', '(type utf8)', '(type FooRec)',
             '(type GLib.List(utf8))', '(scope call)', '(scope async)', '(scope notified)', '(scope forever)',
             '(closure ctx)', '(destroy dn)', '(closure ctx) (destroy dn)', '(scope notified) (closure ctx) (destroy dn)',
             '(attributes a=b c=d)', '(skip) (nullable)', '(out) (optional) (nullable)', '(out) (transfer container) (array length=len)',
             '(inout) (array length=len) (transfer full)', '(nullable) (transfer full)', '(array length=len) (element-type utf8) (transfer full)',
             # every direction x nullable x optional: the typelib must carry exactly the flags the GIR states
             '(out) (nullable)', '(out) (optional)', '(inout) (nullable)', '(inout) (optional)', '(inout) (nullable) (optional)']


def site_cases():
    out = []
    for site in SITE_FUNCS:
        for a in SITE_ANNS:
            out.append((site, a))
    return out


def build_site_case(site, ann):
    decls = [f() for f in BASE]
    fn, pname = SITE_FUNCS[site]
    d = fn()
    decls.append(d)
    number(decls)
    if pname is None:
        text = scanrun.block(d.name, [(p[1], '') for p in d.params], ret=(ann,))
    else:
        text = scanrun.block(d.name, [(p[1], ann if p[1] == pname else '') for p in d.params])
    return decls, [scanrun.comment(text, line=500)]


def _work_sites(chunk):
    part = Part()
    asan, cases = chunk
    b = cbuild.build(asan)
    wd = tools.workdir('c15s')
    try:
        for site, ann in cases:
            decls, comments = build_site_case(site, ann)
            r = scanrun.scan(decls, comments, includes=['Gio-2.0'], shared_libraries=['libfoo.so'])
            part.add(evaluations=1, states=1, transitions=1)
            if r.error or r.xml is None:
                part.outcome(('scanner-error', (r.error or '')[:40]))
                part.add(unspecified=1)
                continue
            probs = check_gir(b, r.xml, wd, [DEPS], 'Foo-1.0')
            part.add(traces_validated_against_impl=1)
            part.nontrivial(repr((site, ann)))
            part.outcome((site, tuple(sorted(set(p[0] for p in probs)))))
            for kind, text in probs:
                part.violation('%s:site:%s:%s|%s' % (kind, site, ann, norm(text)), text,
                               {'site': site, 'ann': ann, 'c': fake.c_of(decls), 'comments': [c[0] for c in comments]})
        if cases:
            d, c = build_site_case(*cases[0])
            part.sample({'c': fake.c_of(d)[-300:], 'comments': [x[0] for x in c]})
    finally:
        tools.cleanup(wd)
    return part.result()


# ---- prefix-related dependency family --------------------------------------------------------------------------------
# The scanned namespace Foo includes FooDep (deps/c15): its NAME starts with "Foo" and it defines Rec, Thing, Kind and
# Func, i.e. the same short names as the local FooRec / FooKind / FooFunc.  Every function mixes a local and the
# same-named foreign type in different positions.
DEP_MENU = [
    ('dep-param', lambda: Func('foo_use_dep', 'void', [('FooDepRec*', 'd'), ('FooRec*', 'l')])),
    ('dep-ret', lambda: Func('foo_get_dep', 'FooDepRec*', [('FooRec*', 'l')])),
    ('dep-ret-local', lambda: Func('foo_get_local', 'FooRec*', [('FooDepRec*', 'd')])),
    ('dep-enum', lambda: Func('foo_dep_kind', 'FooDepKind', [('FooKind', 'k'), ('FooDepKind', 'dk')])),
    ('dep-cb', lambda: Func('foo_dep_each', 'void', [('FooDepFunc', 'f'), ('gpointer', 'user_data'), ('FooFunc', 'g'), ('gpointer', 'data')])),
    ('dep-thing', lambda: Func('foo_dep_thing', 'FooDepThing*', [])),
    ('dep-out', lambda: Func('foo_dep_out', 'void', [('FooDepRec**', 'd'), ('FooRec**', 'l')])),
    ('dep-field', lambda: TypedefAnon('FooHolder', [Field('local', 'FooRec*'), Field('dep', 'FooDepRec*'), Field('kind', 'FooDepKind'),
                                                     Field('emb', 'FooDepRec'), Field('lemb', 'FooRec')])),
    # by-value members from EVERY included namespace in one record (FooDep, GLib, GObject): layout computation has to
    # find each of them whatever the order of the includes
    ('dep-embed-mixed', lambda: TypedefAnon('FooMixedEmb', [Field('d', 'FooDepRec'), Field('l', 'GList'), Field('v', 'GValue'),
                                                            Field('k', 'FooDepKind'), Field('s', 'GSeekType'), Field('t', 'FooRec')])),
    ('dep-embed-glib', lambda: TypedefAnon('FooGlibEmb', [Field('l', 'GList'), Field('s', 'GSeekType')])),
    ('dep-cbtype', lambda: Callback('FooMixed', 'FooDepRec*', [('FooRec*', 'l'), ('FooDepRec*', 'd')])),
    ('dep-alias', lambda: Typedef('FooDepAlias', 'FooDepRec')),
    ('dep-list', lambda: Func('foo_dep_list', 'GList*', [('GSList*', 'in')])),
]
DEP_COMMENTS = {
    'dep-list': scanrun.block('foo_dep_list', [('in', '(element-type FooDep.Rec)')], ret=('(element-type FooRec) (transfer container)',)),
    'dep-out': scanrun.block('foo_dep_out', [('d', '(out)'), ('l', '(out)')]),
}
DEPDIR15 = os.path.join(ROOT, 'deps', 'c15')


def dep_cases(tier):
    keys = [k for k, f in DEP_MENU]
    out = [(k,) for k in keys] + list(itertools.combinations(keys, 2))
    if tier == 'thorough':
        out += list(itertools.combinations(keys, 3))
    return out


def build_dep_case(keys):
    decls = [f() for f in BASE]
    table = dict(DEP_MENU)
    decls += [table[k]() for k in keys]
    number(decls)
    comments = [scanrun.comment(DEP_COMMENTS[k], line=100 + 40 * i) for i, k in enumerate(keys) if k in DEP_COMMENTS]
    return decls, comments


def _work_dep(chunk):
    part = Part()
    asan, cases = chunk
    b = cbuild.build(asan)
    wd = tools.workdir('c15d')
    try:
        for keys in cases:
            decls, comments = build_dep_case(keys)
            r = scanrun.scan(decls, comments, includes=['FooDep-1.0', 'Gio-2.0'], include_paths=[DEPDIR15, DEPS],
                             shared_libraries=['libfoo.so'])
            part.add(evaluations=1, states=1, transitions=len(keys))
            if r.error or r.xml is None:
                part.outcome(('scanner-error', (r.error or '')[:40]))
                part.add(unspecified=1)
                continue
            if b'FooDep.' not in r.xml and set(keys) != {'dep-embed-glib'}:
                part.violation('harness:dep-reference-missing:%s' % '+'.join(keys), 'the scanned GIR has no FooDep.-qualified reference',
                               {'dep_keys': list(keys), 'c': fake.c_of(decls)})
            probs = check_gir(b, r.xml, wd, [DEPDIR15, DEPS], 'Foo-1.0')
            part.add(traces_validated_against_impl=1)
            part.nontrivial(repr(keys))
            part.outcome(('dep', tuple(sorted(set(p[0] for p in probs)))))
            for kind, text in probs:
                part.violation('%s:dep:%s|%s' % (kind, '+'.join(keys), norm(text)), text,
                               {'dep_keys': list(keys), 'c': fake.c_of(decls), 'comments': [c[0] for c in comments]})
        if cases:
            d, c = build_dep_case(cases[0])
            part.sample({'c': fake.c_of(d)[-300:], 'includes': ['FooDep-1.0']})
    finally:
        tools.cleanup(wd)
    return part.result()


def corpus_files():
    return sorted(glob.glob(os.path.join(REPO, 'tests', 'scanner', '*-expected.gir')))


def _work_corpus(chunk):
    part = Part()
    asan, files = chunk
    b = cbuild.build(asan)
    wd = tools.workdir('c15c')
    sdirs = [os.path.join(REPO, 'tests', 'scanner'), os.path.join(REPO, 'gir'), DEPS]
    try:
        for f in files:
            with open(f, 'rb') as fh:
                data = fh.read()
            name = os.path.basename(f).replace('-expected.gir', '')
            # includes must be satisfiable from the sandbox
            root = gir2expect.girread.parse(data)
            missing = []
            for inc in root.findall('include'):
                fn = '%s-%s.gir' % (inc.get('name'), inc.get('version'))
                if not any(os.path.exists(os.path.join(d, fn)) for d in sdirs):
                    missing.append(fn)
            part.add(evaluations=1, states=1)
            if missing:
                part.outcome(('skipped', name))
                part.add(unspecified=1)
                part.sample({'file': os.path.basename(f), 'skipped_missing_includes': missing})
                continue
            # the expected files are named X-1.0-expected.gir; the compiler wants <Namespace>-<version>.gir
            probs = check_gir(b, data, wd, sdirs, name)
            # references to elements the miniature deps do not define are not the scanner's fault
            probs = [p for p in probs if not (p[0] in ('rejected', 'stderr') and _mentions_missing_dep(p[1]))]
            part.add(traces_validated_against_impl=1)
            part.nontrivial(name)
            part.outcome((name, tuple(sorted(set(p[0] for p in probs)))))
            for kind, text in probs:
                part.violation('corpus:%s:%s|%s' % (kind, name, norm(text)), text, {'file': f})
    finally:
        tools.cleanup(wd)
    return part.result()


# ---- registered-types family -----------------------------------------------------------------------------------------
# GType-registered enumeration, bitfield, boxed record, boxed union and interface (from the runtime dump), each with a
# helper function that the scanner nests INSIDE the element (<function> in <enumeration>/<bitfield>/<record>/<union>/
# <interface>), crossed with the ways a record can name its copy/free functions.
REG_ITEMS = {
    'genum': ([lambda: Enum('FooMode', [('FOO_MODE_A', 0), ('FOO_MODE_B', 1)]),
               lambda: Func('foo_mode_get_type', 'GType', []),
               lambda: Func('foo_mode_from_string', 'FooMode', [('const char*', 's')])],
              '<enum name="FooMode" get-type="foo_mode_get_type"><member name="FOO_MODE_A" nick="a" value="0"/>'
              '<member name="FOO_MODE_B" nick="b" value="1"/></enum>'),
    'gflags': ([lambda: Enum('FooPerm', [('FOO_PERM_R', 1), ('FOO_PERM_W', 2)], bitfield=True),
                lambda: Func('foo_perm_get_type', 'GType', []),
                lambda: Func('foo_perm_from_mask', 'FooPerm', [('guint', 'mask')])],
               '<flags name="FooPerm" get-type="foo_perm_get_type"><member name="FOO_PERM_R" nick="r" value="1"/>'
               '<member name="FOO_PERM_W" nick="w" value="2"/></flags>'),
    'gboxed': ([lambda: TypedefAnon('FooBox', [Field('w', 'int'), Field('h', 'int')]),
                lambda: Func('foo_box_get_type', 'GType', []),
                lambda: Func('foo_box_copy', 'FooBox*', [('FooBox*', 'self')]),
                lambda: Func('foo_box_free', 'void', [('FooBox*', 'self')]),
                lambda: Func('foo_box_parse', 'gboolean', [('const char*', 's'), ('GError**', 'error')]),
                lambda: Func('foo_box_new', 'FooBox*', []),
                lambda: Func('foo_box_new_full', 'FooBox*', [('int', 'w'), ('int', 'h')]),
                lambda: Func('foo_box_scale', 'void', [('FooBox*', 'self'), ('int', 'f')]),
                lambda: Func('foo_box_scale_xy', 'void', [('FooBox*', 'self'), ('int', 'fx'), ('int', 'fy')])],
               '<boxed name="FooBox" get-type="foo_box_get_type"/>'),
    'gunion': ([lambda: TypedefAnon('FooAny', [Field('i', 'int'), Field('d', 'double')], union=True),
                lambda: Func('foo_any_get_type', 'GType', []),
                lambda: Func('foo_any_is_int', 'gboolean', [('FooAny*', 'self')]),
                lambda: Func('foo_any_zero', 'int', [])],
               '<boxed name="FooAny" get-type="foo_any_get_type"/>'),
    'giface': ([lambda: Typedef('FooIface', 'struct _FooIface'),
                lambda: Typedef('FooIfaceInterface', 'struct _FooIfaceInterface'),
                lambda: Struct('_FooIfaceInterface', [Field('g_iface', 'GTypeInterface'),
                                                       FieldCb('poke', 'void', [('FooIface*', 'self')])]),
                lambda: Func('foo_iface_get_type', 'GType', []),
                lambda: Func('foo_iface_poke', 'void', [('FooIface*', 'self')]),
                lambda: Func('foo_iface_count', 'int', [])],
               '<interface name="FooIface" get-type="foo_iface_get_type"><prerequisite name="GObject"/></interface>'),
}
# an opaque record FooThing and how its copy/free functions are named: (annotation on the record, annotation on
# foo_thing_free, whether a differently-prefixed release function is declared)
THING_VARIANTS = [None] + [(cf, skip, where)
                           for cf in ('free', 'copy', 'both')
                           for skip in (False, True)
                           for where in ('method', 'function', 'missing')]


def reg_cases(tier):
    keys = sorted(REG_ITEMS)
    out = []
    for r in range(len(keys) + 1):
        for sub in itertools.combinations(keys, r):
            for tv in (THING_VARIANTS if (tier == 'thorough' or r <= 1 or r == len(keys)) else THING_VARIANTS[:1]):
                out.append((sub, tv))
    return out


def build_reg_case(sub, tv):
    decls = [f() for f in BASE]
    dump = ['<?xml version="1.0"?><repository>']
    for k in sub:
        fs, d = REG_ITEMS[k]
        decls += [f() for f in fs]
        dump.append(d)
    dump.append('</repository>')
    comments = []
    if 'gboxed' in sub:       # shadowing constructor and method of a boxed record
        comments.append(scanrun.comment(scanrun.block('foo_box_new_full', [('w', ''), ('h', '')], ident_ann='(rename-to foo_box_new)'), line=700))
        comments.append(scanrun.comment(scanrun.block('foo_box_scale_xy', [('fx', ''), ('fy', '')], ident_ann='(rename-to foo_box_scale)'), line=720))
    if tv is not None:
        cf, skip, where = tv
        decls.append(TypedefAnon('FooThing', [Field('x', 'int')]))
        decls.append(Func('foo_thing_new', 'FooThing*', []))
        names = {}
        for what in (('free',) if cf == 'free' else ('copy',) if cf == 'copy' else ('copy', 'free')):
            fn = 'foo_thing_%s' % what if where != 'function' else 'foo_%s_a_thing' % what
            names[what] = fn
            if where != 'missing':
                decls.append(Func(fn, 'void' if what == 'free' else 'FooThing*', [('FooThing*', 'thing')]))
                if skip:
                    comments.append(scanrun.comment(scanrun.block(fn, [('thing', '')], ident_ann='(skip)'), line=300 + 20 * len(comments)))
        ann = ' '.join('(%s-func %s)' % (w, n) for w, n in sorted(names.items()))
        comments.append(scanrun.comment(scanrun.block('FooThing', [], ident_ann=ann), line=500))
    number(decls)
    return decls, comments, ''.join(dump)


def _work_reg(chunk):
    part = Part()
    asan, cases = chunk
    b = cbuild.build(asan)
    wd = tools.workdir('c15g')
    try:
        for sub, tv in cases:
            decls, comments, dump = build_reg_case(sub, tv)
            r = scanrun.scan(decls, comments, includes=['Gio-2.0', 'GObject-2.0'], dump=dump, shared_libraries=['libfoo.so'])
            part.add(evaluations=1, states=1, transitions=len(sub) + 1)
            if r.error or r.xml is None:
                part.outcome(('scanner-error', (r.error or '')[:40]))
                part.add(unspecified=1)
                continue
            for k in sub:          # the point of the family: the helper really is nested in the registered element
                if ('glib:get-type="foo_%s_get_type"' % REG_ITEMS[k][0][0]().name[3:].lower()).encode() not in r.xml:
                    part.violation('harness:reg-not-registered:%s' % k, 'the scanned GIR does not register %s' % k,
                                   {'reg': list(sub), 'thing': tv, 'c': fake.c_of(decls)})
            probs = check_gir(b, r.xml, wd, [DEPS], 'Foo-1.0')
            part.add(traces_validated_against_impl=1)
            part.nontrivial(repr((sub, tv)))
            part.outcome(('reg', tuple(sorted(set(p[0] for p in probs)))))
            for kind, text in probs:
                part.violation('%s:reg:%s:%s|%s' % (kind, '+'.join(sub), '-'.join(map(str, tv)) if tv else 'nothing', norm(text)), text,
                               {'reg': list(sub), 'thing': list(tv) if tv else None, 'c': fake.c_of(decls),
                                'comments': [c[0] for c in comments], 'dump': dump})
        if cases:
            d, c, dump = build_reg_case(*cases[-1])
            part.sample({'c': fake.c_of(d)[-300:], 'dump': dump[:300]})
    finally:
        tools.cleanup(wd)
    return part.result()


def _mentions_missing_dep(text):
    return ('Type reference' in text and 'not found' in text) or 'could not be found' in text.lower()


def all_cases(tier):
    keys = [k for k, f in MENU]
    cases = [((), False), ((), True)]
    for k in keys:
        cases.append(((k,), False))
        cases.append(((k,), True))
    for a, b in itertools.combinations(keys, 2):
        cases.append(((a, b), False))
    if tier == 'thorough':
        for a, b in itertools.combinations(keys, 2):
            cases.append(((a, b), True))
        for t in itertools.combinations(keys, 3):
            cases.append((t, False))
    seen = set()
    out = []
    for ks, o in cases:
        c = (close(ks), o)
        if c not in seen:
            seen.add(c)
            out.append(c)
    return out


def run(ctx):
    thorough = ctx.tier == 'thorough'
    cbuild.build(False)
    if thorough:
        cbuild.build(True)
    cases = all_cases(ctx.tier)
    ctx.set(rule='all subsets of size <= %d of a %d-item declaration menu (+ base declarations, with and without a GObject class '
                 'from a runtime dump) scanned by the real pipeline, compiled by the rebuilt g-ir-compiler, decoded and matched '
                 'against the expectation derived from the GIR text; plus %d scanner-written *-expected.gir files. '
                 'non-trivial = every case that produced a GIR' % (3 if thorough else 2, len(MENU), len(corpus_files())),
            bounds={'menu': len(MENU), 'subset_size': 3 if thorough else 2, 'cases': len(cases)})
    # the sanitizer build is ~4x slower: in thorough it takes the singles and pairs, the triples use the plain build
    small = [c for c in cases if len(c[0]) <= 2]
    large = [c for c in cases if len(c[0]) > 2]
    for r in pmap(_work, [(thorough, c) for c in chunked(rotate(small, ctx.seed), 64 if thorough else 32)] +
                  [(False, c) for c in chunked(rotate(large, ctx.seed), 64)]):
        ctx.merge(r)
    for r in pmap(_work_corpus, [(thorough, [f]) for f in corpus_files()]):
        ctx.merge(r)
    for r in pmap(_work_sites, [(thorough, c) for c in chunked(rotate(site_cases(), ctx.seed), 32)]):
        ctx.merge(r)
    for r in pmap(_work_dep, [(thorough, c) for c in chunked(rotate(dep_cases(ctx.tier), ctx.seed), 16)]):
        ctx.merge(r)
    for r in pmap(_work_reg, [(thorough, c) for c in chunked(rotate(reg_cases(ctx.tier), ctx.seed), 16)]):
        ctx.merge(r)
    ctx.assumptions += ['scanner inputs are symbol trees (the C lexer/parser extension cannot be built here)',
                        'miniature deps GIRs; corpus files whose includes are unavailable are skipped and listed',
                        'glibshim (trusted base); decoder vt/typelib.py; expectation derived from the GIR by vt/c/gir2expect.py '
                        '(pointer flags, nested anonymous compounds and field bits UNSPECIFIED)']
    if ctx.cov['traces_validated_against_impl'] < 20:
        raise HarnessBroken('too few scanner outputs reached the compiler')



def replay(ctx, case):
    b = cbuild.build(False)
    wd = tools.workdir('c15r')
    try:
        if 'file' in case:
            sdirs = [os.path.join(REPO, 'tests', 'scanner'), os.path.join(REPO, 'gir'), DEPS]
            data = open(case['file'], 'rb').read()
            probs = check_gir(b, data, wd, sdirs, os.path.basename(case['file']).replace('-expected.gir', ''))
        elif 'dep_keys' in case:
            decls, comments = build_dep_case(tuple(case['dep_keys']))
            r = scanrun.scan(decls, comments, includes=['FooDep-1.0', 'Gio-2.0'], include_paths=[DEPDIR15, DEPS],
                             shared_libraries=['libfoo.so'])
            print(fake.c_of(decls))
            if r.xml is None:
                print('scanner error', r.error)
                return True
            probs = check_gir(b, r.xml, wd, [DEPDIR15, DEPS], 'Foo-1.0')
        elif 'reg' in case:
            decls, comments, dump = build_reg_case(tuple(case['reg']), tuple(case['thing']) if case['thing'] else None)
            r = scanrun.scan(decls, comments, includes=['Gio-2.0', 'GObject-2.0'], dump=dump, shared_libraries=['libfoo.so'])
            print(fake.c_of(decls)); print([c[0] for c in comments])
            if r.xml is None:
                print('scanner error', r.error)
                return True
            probs = check_gir(b, r.xml, wd, [DEPS], 'Foo-1.0')
        elif 'site' in case:
            decls, comments = build_site_case(case['site'], case['ann'])
            r = scanrun.scan(decls, comments, includes=['Gio-2.0'], shared_libraries=['libfoo.so'])
            print(fake.c_of(decls)); print(comments[0][0])
            if r.xml is None:
                print('scanner error', r.error)
                return True
            probs = check_gir(b, r.xml, wd, [DEPS], 'Foo-1.0')
        else:
            decls, comments = build_case(tuple(case['keys']), case['with_obj'])
            r = scanrun.scan(decls, comments, includes=['Gio-2.0'] if not case['with_obj'] else ['Gio-2.0', 'GObject-2.0'],
                         dump=OBJ_DUMP if case['with_obj'] else None, shared_libraries=['libfoo.so'])
            print(fake.c_of(decls))
            if r.xml is None:
                print('scanner error', r.error)
                return True
            probs = check_gir(b, r.xml, wd, [DEPS], 'Foo-1.0')
        for p in probs:
            print('  ', p)
        return not probs
    finally:
        tools.cleanup(wd)
