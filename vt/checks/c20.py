"""C20 - the XML writer produces well-formed, lossless XML.

Explicit-state search (E2).  Model state = the open-element stack, each frame
(name, kind) with kind 'push' (push_tag/pop_tag) or 'ctx' (with tagcontext).
Every transition (state, op) is replayed on a fresh giscanner.xmlwriter.XMLWriter:
canonical history to reach the state, the op, then close everything; the document
is parsed with expat (independent parser) and compared with the reference tree the
model builds alongside.

Two explorations:
 (a) state-deduplicated BFS: the writer's future behaviour is a function of
     (tag stack, indent) only - its buffer is append-only - so states are merged on
     the stack; every (state, op) edge is executed with the full string menu.
 (b) history exploration WITHOUT de-duplication over a small menu, so behaviour that
     (wrongly) depended on what was written before cannot hide behind an equal stack.
"""
import itertools
import xml.parsers.expat

from vt.core import Part, pmap, chunked, rotate

LEVEL = 'model_checking'

LONG = 'L' * 90
STRINGS = ['', 'a', '<', '>', '&', '"', "'", '"\'', '\n', '\t', ' x ', 'é', '&amp;', ']]>',
           '<a b="c">', 'a\nb', '&#10;', '\U0001f600', LONG, 'x' * 30 + '"' + 'y' * 50, '-', 'a-',
           'say "hi" now', '" ', ' "', "' ", '"\' "x', 'a="b" c=\'d\'', 'x"\ny', "it's \"q\" ",
           '%', '%%', '%d', '%s', '100%', '%(name)s', '{0}', '{', '\\', '\\n', '$x', '\x7f']
ATTR_ONLY = ['\r', 'a\r\nb']                 # carriage returns: attributes only (statement)
COMMENT_STRINGS = [s for s in STRINGS if '--' not in s and not s.endswith('-')] + ['a - b']
NAMES = ['a', 'c:type']


def attr_sets(tier):
    out = [[]]
    for s in STRINGS + ATTR_ONLY:
        out.append([('a', s)])
    out.append([('a', None)])
    out.append([('a', None), ('b', None)])
    for s in STRINGS + ATTR_ONLY:
        # long enough to be wrapped at every depth: the interesting value first, in the middle and last
        out.append([('a', s), ('b', LONG)])
        out.append([('a', LONG), ('b', s)])
        out.append([('a', 'w' * 40), ('b', s), ('c', 'z' * 40)])
    for s in ['"', '<', '\n', LONG, '\r']:
        out.append([('a', 'v'), ('b', None), ('c:type', s)])
        out.append([('xml:space', 'preserve'), ('a', s), ('b', s)])
    # boundary sweep around the 79 column rule (content must never change)
    rng = range(30, 82) if tier == 'thorough' else range(44, 80, 1)
    for n in rng:
        out.append([('a', 'x' * n), ('b', 'y z')])
    out.append([('a', 'x' * 40), ('b', 'y' * 40), ('c', None), ('d', '"' * 5)])
    # attribute NAMES are part of the content too: names differing only in case, prefixed and look-alike names
    out.append([('id', '1'), ('ID', '2')])
    out.append([('viewBox', 'a'), ('viewbox', 'b'), ('VIEWBOX', LONG)])
    out.append([('a', '1'), ('A', '2'), ('c:a', '3'), ('glib:a', '4'), ('a-b', '5'), ('a_b', '6'), ('a.b', '7')])
    out.append([('A', LONG), ('a', LONG)])
    return out


def op_menu(tier):
    """Full menu used on every de-duplicated state."""
    A = attr_sets(tier)
    ops = []
    for n in NAMES:
        for a in A:
            ops.append(('push', n, a))
    for a in A[:8] + A[-3:]:
        ops.append(('enter', 'a', a))
    for n in NAMES:
        for a in A:
            ops.append(('tag', n, a, None))
        for d in STRINGS:
            ops.append(('tag', n, [], d))
            ops.append(('tag', n, [('a', LONG), ('b', '&')], d))
            ops.append(('tag', n, [('a', d)], d))
    ops.append(('tag', 'a', [], b'bytes \xc3\xa9 <'.decode('utf-8')))
    for s in COMMENT_STRINGS:
        ops.append(('comment', s))
    for s in STRINGS:
        ops.append(('text', s))
    ops += [('pop',), ('exit',), ('raise',)]
    # operations that fail INSIDE the writer (a non-string attribute value): the element is never opened
    for n in NAMES:
        ops += [('badpush', n), ('badenter', n), ('badtag', n)]
    return ops


SMALL_MENU = [
    ('push', 'a', [('a', '"<&')]), ('push', 'c:type', [('a', LONG), ('b', '\n')]),
    ('enter', 'a', [('a', None)]), ('enter', 'c:type', [('b', "'")]),
    ('tag', 'a', [('a', LONG), ('b', LONG)], '<&>'), ('tag', 'a', [], ''), ('tag', 'c:type', [('a', '\t')], None),
    ('comment', 'c <'), ('text', ' x '), ('text', '&<'),
    ('pop',), ('exit',), ('raise',), ('badpush', 'a'), ('badenter', 'a'),
]


def enabled(stack, op, maxdepth):
    k = op[0]
    if k in ('push', 'enter'):
        return len(stack) < maxdepth
    if k in ('badpush', 'badenter', 'badtag'):
        return True
    if k == 'pop':
        return bool(stack) and stack[-1][1] == 'push'
    if k in ('exit', 'raise'):
        return bool(stack) and stack[-1][1] == 'ctx'
    if k in ('text', 'comment', 'ws_on', 'ws_off'):
        return True
    return True


# ------------------------------------------------------------------ model ---
class MNode(object):
    __slots__ = ('name', 'attrs', 'kids')

    def __init__(self, name, attrs):
        self.name = name
        self.attrs = [(k, v) for k, v in attrs if v is not None]
        self.kids = []       # MNode | ('text', s) | ('comment', s) | ('data', s)

    def dump(self):
        return [self.name, self.attrs, [k.dump() if isinstance(k, MNode) else list(k) for k in self.kids]]


def model_run(ops):
    """Reference semantics: returns (root MNode, final stack).  The implicit root
    element 'root' is opened first so that the document has a single root."""
    root = MNode('root', [])
    cur = [root]
    stack = []
    for op in ops:
        k = op[0]
        if k in ('push', 'enter'):
            n = MNode(op[1], op[2])
            cur[-1].kids.append(n)
            cur.append(n)
            stack.append((op[1], 'push' if k == 'push' else 'ctx'))
        elif k in ('pop', 'exit'):
            cur.pop()
            stack.pop()
        elif k in ('raise', 'badpush', 'badenter', 'badtag'):
            # (for the bad* ops the writer itself raises while serialising the tag: nothing is opened or written)
            # the exception unwinds every enclosing tagcontext up to the nearest
            # push frame (where the harness catches it); each must close its element
            while stack and stack[-1][1] == 'ctx':
                cur.pop()
                stack.pop()
        elif k == 'tag':
            n = MNode(op[1], op[2])
            if op[3] is not None:
                n.kids.append(('data', op[3]))
            cur[-1].kids.append(n)
        elif k == 'text':
            cur[-1].kids.append(('text', op[1]))
        elif k == 'comment':
            cur[-1].kids.append(('comment', op[1]))
    return root, stack


# --------------------------------------------------------- implementation ---
class _WriterAccepted(Exception):
    pass


class _Unwind(Exception):
    def __init__(self, i):
        self.i = i


def impl_run(ops, whitespace=True):
    from giscanner.xmlwriter import XMLWriter
    w = XMLWriter()
    if not whitespace:
        w.disable_whitespace()
    w.push_tag('root')

    def block(i, in_ctx):
        while i < len(ops):
            op = ops[i]
            k = op[0]
            if k == 'push':
                w.push_tag(op[1], list(op[2]))
                i += 1
                while True:
                    try:
                        i = block(i, False)
                        break
                    except _Unwind as u:       # caught at the push frame; continue inside it (any number of times)
                        i = u.i
                continue
            if k == 'enter':
                with w.tagcontext(op[1], list(op[2])):
                    i = block(i + 1, True)
                continue
            if k == 'pop':
                w.pop_tag()
                return i + 1
            if k == 'exit':
                return i + 1
            if k == 'raise':
                raise _Unwind(i + 1)
            if k in ('badpush', 'badenter', 'badtag'):
                bad = [('a', 'ok'), ('b', 5)]
                try:
                    if k == 'badpush':
                        w.push_tag(op[1], bad)
                    elif k == 'badtag':
                        w.write_tag(op[1], bad)
                    else:
                        with w.tagcontext(op[1], bad):
                            pass
                except (TypeError, AttributeError):
                    raise _Unwind(i + 1)
                raise _WriterAccepted('%s with a non-string attribute value did not raise' % k)
            if k == 'tag':
                w.write_tag(op[1], list(op[2]), op[3])
            elif k == 'ws_on':
                w.enable_whitespace()
            elif k == 'ws_off':
                w.disable_whitespace()
            elif k == 'text':
                w.write_line(op[1], do_escape=True)
            elif k == 'comment':
                w.write_comment(op[1])
            i += 1
        if in_ctx:
            # history ends inside a tagcontext: leave the with-block normally
            return i
        return i

    i = 0
    while i < len(ops):
        try:
            i = block(i, False)
        except _Unwind as u:
            i = u.i
    # close whatever is still open ("every opened element is closed in order")
    while w._tag_stack:
        w.pop_tag()
    return w.get_encoded_xml()


def parse(xml_bytes):
    """expat -> nested [name, [(k,v)...], kids] with kids = nodes | ('chars', s) | ('comment', s)"""
    p = xml.parsers.expat.ParserCreate()
    p.ordered_attributes = True
    p.buffer_text = True
    root = ['#doc', [], []]
    stack = [root]

    def start(name, attrs):
        n = [name, list(zip(attrs[0::2], attrs[1::2])), []]
        stack[-1][2].append(n)
        stack.append(n)

    def end(name):
        stack.pop()

    def chars(s):
        kids = stack[-1][2]
        if kids and isinstance(kids[-1], tuple) and kids[-1][0] == 'chars':
            kids[-1] = ('chars', kids[-1][1] + s)
        else:
            kids.append(('chars', s))

    def comment(s):
        stack[-1][2].append(('comment', s))

    p.StartElementHandler = start
    p.EndElementHandler = end
    p.CharacterDataHandler = chars
    p.CommentHandler = comment
    p.Parse(xml_bytes, True)
    return root


def compare(model, node, ws, path='root'):
    """Return None if the parsed node agrees with the model, else a description."""
    if node[0] != model.name:
        return '%s: element name %r != %r' % (path, node[0], model.name)
    if node[1] != model.attrs:
        return '%s: attributes %r != %r' % (path, node[1], model.attrs)
    kids = node[2]
    mk = model.kids
    # leaf written by write_tag with data: text must be exactly the data
    if len(mk) == 1 and isinstance(mk[0], tuple) and mk[0][0] == 'data':
        got = ''.join(k[1] for k in kids if isinstance(k, tuple) and k[0] == 'chars')
        if any(not (isinstance(k, tuple) and k[0] == 'chars') for k in kids):
            return '%s: leaf has child nodes' % path
        if got != mk[0][1]:
            return '%s: leaf text %r != %r' % (path, got, mk[0][1])
        return None
    # otherwise: sequence of lines; character data between structural children is
    # (indent) text (newline) per text child, plus the writer's own indentation
    segs = []        # expected structural sequence
    i = 0
    buf = ''
    out = []
    for k in kids:
        if isinstance(k, tuple) and k[0] == 'chars':
            buf += k[1]
        else:
            out.append(('chars', buf))
            buf = ''
            out.append(k)
    out.append(('chars', buf))
    # walk the model
    pos = 0

    def take_chars():
        nonlocal pos
        c = out[pos]
        assert c[0] == 'chars'
        pos += 1
        return c[1]

    pending = take_chars()
    for m in mk:
        if isinstance(m, tuple) and m[0] == 'text':
            # consume: spaces* + text + newline from pending
            t = m[1]
            nl = '\n' if ws else ''
            want = t + nl
            j = 0
            ok = False
            while j <= len(pending) and pending[:j].strip(' \n') == '':
                if pending[j:].startswith(want):
                    pending = pending[j + len(want):]
                    ok = True
                    break
                if ws == 'mixed' and pending[j:].startswith(t):     # written while whitespace was disabled: no newline
                    pending = pending[j + len(t):]
                    ok = True
                    break
                if not ws:
                    break
                j += 1
            if not ok:
                return '%s: text child %r not found in character data %r' % (path, t, pending)
            continue
        # structural child: pending must be whitespace the writer added
        if pending.strip(' \n' if ws else '') != '':
            return '%s: stray character data %r before child' % (path, pending)
        if pos >= len(out):
            return '%s: missing child %r' % (path, m)
        node_k = out[pos]
        pos += 1
        if isinstance(m, tuple) and m[0] == 'comment':
            if not (isinstance(node_k, tuple) and node_k[0] == 'comment'):
                return '%s: expected comment, got %r' % (path, node_k)
            if node_k[1] != ' %s ' % m[1]:
                return '%s: comment %r != %r' % (path, node_k[1], ' %s ' % m[1])
        else:
            if isinstance(node_k, tuple):
                return '%s: expected element %s, got %r' % (path, m.name, node_k)
            r = compare(m, node_k, ws, path + '/' + m.name)
            if r:
                return r
        pending = take_chars()
    if pending.strip(' \n' if ws else '') != '':
        return '%s: stray character data %r at end' % (path, pending)
    if pos != len(out):
        return '%s: %d unexpected extra children' % (path, (len(out) - pos) // 2)
    return None


def check_history(ops, ws=True):
    """Execute ops on the implementation, compare with the model.  None = ok."""
    model, _ = model_run(ops)
    try:
        data = impl_run(ops, ws)
    except _WriterAccepted:
        return None, None       # a writer that accepts non-string values: outside the statement (UNSPECIFIED)
    except Exception as e:
        return 'writer raised %s: %s' % (type(e).__name__, e), None
    try:
        text = data.decode('utf-8')
        tree = parse(data)
    except (xml.parsers.expat.ExpatError, UnicodeDecodeError) as e:
        return 'output is not well-formed: %s' % e, data.decode('utf-8', 'replace')
    if not text.startswith('<?xml version="1.0"'):
        return 'missing XML declaration', text
    kids = [k for k in tree[2] if not (isinstance(k, tuple) and k[0] == 'chars')]
    if len(kids) != 1:
        return 'document has %d top-level nodes' % len(kids), text
    if any(op[0] in ('ws_on', 'ws_off') for op in ops):
        ws = 'mixed'    # the mode changes inside the history: accept the whitespace either mode may add
    r = compare(model, kids[0], ws)
    return (r, text) if r else (None, None)


# ------------------------------------------------------------ exploration ---
def canonical_history(stack):
    return [('push' if k == 'push' else 'enter', n, [('a', 'v')]) for n, k in stack]


def all_stacks(maxdepth):
    frames = [(n, k) for n in NAMES for k in ('push', 'ctx')]
    out = [()]
    for d in range(1, maxdepth + 1):
        out += list(itertools.product(frames, repeat=d))
    return out


def _work_states(chunk):
    part = Part()
    tier, maxdepth, stacks = chunk
    menu = op_menu(tier)
    for stack in stacks:
        hist = canonical_history(stack)
        for op in menu:
            if not enabled(stack, op, maxdepth):
                continue
            for ws in (True, False):
                ops = hist + [op]
                err, text = check_history(ops, ws)
                part.add(evaluations=1, transitions=1, traces_validated_against_impl=1)
                _, st2 = model_run(ops)
                part.outcome((len(stack), op[0], tuple(st2) != tuple(stack)))
                if op[0] in ('tag', 'push', 'enter', 'text', 'comment') and any(
                        isinstance(x, str) and x not in ('', 'a', 'v') for x in _strings(op)):
                    part.nontrivial(repr((stack, op, ws)))
                if err:
                    part.violation('dedup:%r:%r:ws=%s' % (stack, op, ws), err,
                                   {'ops': ops, 'whitespace': ws, 'output': text, 'error': err})
        part.add(states=1)
    part.sample({'ops': hist + [menu[len(stack) * 7 % len(menu)]], 'mode': 'state-dedup'})
    return part.result()


def _strings(op):
    for x in op[1:]:
        if isinstance(x, str):
            yield x
        elif isinstance(x, list):
            for k, v in x:
                yield v


def _work_hist(chunk):
    part = Part()
    maxlen, maxdepth, firsts = chunk
    menu = SMALL_MENU

    def rec(ops, stack):
        if ops:
            err, text = check_history(ops, True)
            part.add(evaluations=1, transitions=1, traces_validated_against_impl=1, states=1)
            part.nontrivial(repr(ops))
            if err:
                part.violation('hist:%r' % (ops,), err, {'ops': ops, 'whitespace': True, 'output': text, 'error': err})
        if len(ops) >= maxlen:
            return
        for op in menu:
            if enabled(stack, op, maxdepth):
                nops = ops + [op]
                _, st2 = model_run(nops)
                rec(nops, st2)

    for f in firsts:
        if enabled([], f, maxdepth):
            _, st = model_run([f])
            rec([f], st)
    if firsts:
        part.sample({'ops': [firsts[0], menu[5], menu[8]], 'mode': 'history'})
    return part.result()



# ----------------------------------------------- whitespace mode toggles ---
# enable_whitespace()/disable_whitespace() are public and may be called while elements are open.
TOGGLE_MENU = [
    ('push', 'a', [('a', 'v')]), ('enter', 'a', [('a', None)]), ('tag', 'a', [], ''), ('tag', 'b', [('a', LONG), ('b', LONG)], None),
    ('text', ' x '), ('pop',), ('exit',), ('ws_on',), ('ws_off',),
]


def _work_toggle(chunk):
    part = Part()
    maxlen, maxdepth, firsts = chunk

    def rec(ops, stack):
        if any(o[0] in ('ws_on', 'ws_off') for o in ops):
            for ws0 in (True, False):
                err, text = check_history(ops, ws0)
                part.add(evaluations=1, transitions=1, traces_validated_against_impl=1, states=1)
                part.nontrivial(repr((ops, ws0)))
                part.outcome(('toggle', err is None))
                if err:
                    part.violation('toggle:%r:start_ws=%s' % (ops, ws0), err,
                                   {'ops': ops, 'whitespace': ws0, 'output': text, 'error': err})
        if len(ops) >= maxlen:
            return
        for op in TOGGLE_MENU:
            if enabled(stack, op, maxdepth):
                nops = ops + [op]
                _, st2 = model_run(nops)
                rec(nops, st2)
    for f in firsts:
        if enabled([], f, maxdepth):
            _, st = model_run([f])
            rec([f], st)
    part.sample({'mode': 'whitespace toggles', 'menu': [list(map(str, o)) for o in TOGGLE_MENU]})
    return part.result()


# ------------------------------------------------------- two writers alive ---
# Several XMLWriter/GIRWriter objects may be alive in one process.  All interleavings of two short
# straight-line programs (push/pop/tag/text only) on two writers: each writer's document must be the
# document the same program produces alone.
PROGRAMS = [
    [('push', 'a', [('k', 'A')]), ('tag', 'x', [], 'A1'), ('pop',)],
    [('push', 'b', []), ('push', 'c', [('k', 'B')]), ('pop',), ('pop',)],
    [('push', 'd', []), ('text', 'T'), ('push', 'e', [])],
    [('tag', 'f', [('k', 'v')], None), ('push', 'g', []), ('pop',)],
    [('push', 'h', []), ('pop',), ('push', 'i', []), ('pop',)],
    [('push', 'j', [('k', LONG)]), ('comment', 'c'), ('pop',)],
]


def _step(w, op):
    k = op[0]
    if k == 'push':
        w.push_tag(op[1], list(op[2]))
    elif k == 'pop':
        w.pop_tag()
    elif k == 'tag':
        w.write_tag(op[1], list(op[2]), op[3])
    elif k == 'text':
        w.write_line(op[1], do_escape=True)
    elif k == 'comment':
        w.write_comment(op[1])


def _finish(w):
    while w._tag_stack:
        w.pop_tag()
    return w.get_encoded_xml()


def interleavings(n, m):
    """all 0/1 sequences with n zeros and m ones"""
    if n == 0:
        yield (1,) * m
        return
    if m == 0:
        yield (0,) * n
        return
    for rest in interleavings(n - 1, m):
        yield (0,) + rest
    for rest in interleavings(n, m - 1):
        yield (1,) + rest


def check_two_writers(pa, pb, sched):
    from giscanner.xmlwriter import XMLWriter
    docs = []
    for prog in (pa, pb):          # reference: each program alone
        w = XMLWriter()
        w.push_tag('root')
        for op in prog:
            _step(w, op)
        docs.append(_finish(w))
    ws = [XMLWriter(), XMLWriter()]
    for w in ws:
        w.push_tag('root')
    idx = [0, 0]
    progs = [pa, pb]
    try:
        for who in sched:
            _step(ws[who], progs[who][idx[who]])
            idx[who] += 1
        got = [_finish(w) for w in ws]
    except Exception as e:
        return 'writer raised %s: %s' % (type(e).__name__, e)
    for i in (0, 1):
        if got[i] != docs[i]:
            return 'writer %d produced %r, alone it produces %r' % (i, got[i].decode('utf-8', 'replace')[-160:],
                                                                 docs[i].decode('utf-8', 'replace')[-160:])
        try:
            parse(got[i])
        except xml.parsers.expat.ExpatError as e:
            return 'writer %d output is not well-formed: %s' % (i, e)
    return None


def _work_two(chunk):
    part = Part()
    for ia, ib in chunk:
        pa, pb = PROGRAMS[ia], PROGRAMS[ib]
        for sched in interleavings(len(pa), len(pb)):
            err = check_two_writers(pa, pb, sched)
            part.add(evaluations=1, transitions=len(sched), traces_validated_against_impl=1, states=1)
            part.nontrivial(repr((ia, ib, sched)))
            part.outcome(('two-writers', err is None))
            if err:
                part.violation('two-writers:%d:%d:%s' % (ia, ib, ''.join(map(str, sched))), err,
                               {'two_writers': [ia, ib], 'schedule': list(sched), 'error': err})
    part.sample({'mode': 'two writers interleaved', 'program_a': PROGRAMS[chunk[0][0]], 'program_b': PROGRAMS[chunk[0][1]]})
    return part.result()


def run(ctx):
    thorough = ctx.tier == 'thorough'
    maxdepth = 4 if thorough else 3
    maxlen = 6 if thorough else 4
    ctx.set(rule='(a) every (tag-stack state, op) edge for stacks up to depth %d over names %r x kinds push/ctx with the '
                 'full string/attribute menu, whitespace on and off; (b) every op history up to length %d over a '
                 '%d-op menu without state de-duplication. Each edge/history is executed on a fresh XMLWriter, '
                 'closed, parsed by expat and compared with the reference tree; (c) every history (one longer than in (b)) over a 9-op menu that switches the whitespace mode while elements are open, started in either mode; (d) all interleavings of every ordered pair of six straight-line programs on two writers alive at once. non-trivial = case whose op '
                 'carries a string other than ""/a/v (a) or any history (b)' % (maxdepth, NAMES, maxlen, len(SMALL_MENU)),
            bounds={'stack_depth': maxdepth, 'history_len': maxlen, 'menu_full': len(op_menu(ctx.tier)),
                    'menu_small': len(SMALL_MENU)})
    stacks = all_stacks(maxdepth)
    chunks = [(ctx.tier, maxdepth, c) for c in chunked(rotate(stacks, ctx.seed), 64)]
    for r in pmap(_work_states, chunks):
        ctx.merge(r)
    hchunks = [(maxlen, maxdepth, [f]) for f in rotate(SMALL_MENU, ctx.seed)]
    for r in pmap(_work_hist, hchunks):
        ctx.merge(r)
    for r in pmap(_work_toggle, [(maxlen + 1, maxdepth, [f]) for f in rotate(TOGGLE_MENU, ctx.seed)]):
        ctx.merge(r)
    pairs = [(i, j) for i in range(len(PROGRAMS)) for j in range(len(PROGRAMS))]
    for r in pmap(_work_two, chunked(rotate(pairs, ctx.seed), 12)):
        ctx.merge(r)
    ctx.assumptions += [
        'comment text containing "--" or ending in "-" is not representable in an XML comment and is outside the alphabet',
        'carriage returns only in attribute values (statement exempts element text)',
        'single document root: every history runs inside an implicit <root> element',
        'a raise inside tagcontext is caught at the nearest push_tag frame or the top level',
    ]
    if len(ctx._outcomes) < 5:
        from vt.core import HarnessBroken
        raise HarnessBroken('vacuous exploration: %d outcomes' % len(ctx._outcomes))


def replay(ctx, case):
    if 'two_writers' in case:
        ia, ib = case['two_writers']
        err = check_two_writers(PROGRAMS[ia], PROGRAMS[ib], tuple(case['schedule']))
        print('programs', PROGRAMS[ia], PROGRAMS[ib], 'schedule', case['schedule'])
        print('result:', err or 'ok')
        return err is None
    ops = [tuple(o[:1]) + tuple(_fix(x) for x in o[1:]) for o in case['ops']]
    err, text = check_history(ops, case.get('whitespace', True))
    print('ops:', ops)
    print('result:', err or 'ok')
    if text:
        print(text)
    return err is None


def _fix(x):
    if isinstance(x, list):
        return [tuple(p) for p in x]
    return x
