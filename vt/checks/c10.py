"""C10 - well-formed GTK-Doc comment blocks are parsed exactly; writer round trip.

Generation-tree search (E1).  A block *model* (identifier form, identifier annotations,
parameters with annotations and description lines, description paragraphs with an indented
code line, tags with annotations / value / description) is rendered under *layout
dimensions* that the documented grammar leaves free (indentation in front of the asterisk,
line-ending convention, annotations on the part's line or continued one per line, wrapped
descriptions, optional colons, optional blank lines, tag capitalisation, blank runs, end
token `*/` or `**/`).  Every rendering is parsed by the real
`GtkDocCommentBlockParser.parse_comment_block` and the `abstract` view of the returned tree
must equal the view computed from the model alone; then the block is written with the real
`GtkDocCommentBlockWriter` (indent on and off), parsed again, and must give the same view.

The reference side (vt/scan/c10_blocks.py) is written from the documentation and is
calibrated, before any exploration, against upstream's expectation corpus
tests/scanner/annotationparser/**/*.xml: the reference reader `ref_parse` must reproduce
upstream's expected tree for every corpus input it accepts.  `ref_parse` also re-reads every
generated rendering (harness self-check: renderer and expectation agree).

Families
  A  every annotation name x documented option shape (and unknown names) at each of the three
     positions (identifier / parameter / Returns) in a fixed skeleton, plus every identifier form
     and plain symbols whose names merely begin with SECTION / ACTION, under every layout
  P  ordered pairs of annotations in one field, under every annotation-relevant layout
  S  text with one of the 8 characters \\x0b \\x0c \\x1c \\x1d \\x1e \\x85 U+2028 U+2029 (line boundaries for
     str.splitlines(), but not comment line endings) in the middle of a line of an identifier annotation
     value, a parameter / block / tag description
  N  mixed-case parameter names and names differing only in case (distinct, kept as written, in order)
  D  ordinary blocks using a deprecated tag-style annotation (Rename to:, Value:, ...) with no parameter
     or tag before it and something after it, and blocks whose tag line is spelled unusually (blank / tab /
     NBSP inside two-word tag names, any letter case, Unicode case-fold look-alikes): parsed, not lost,
     parameters / tags kept, round trip stable (for odd spellings: block, name and parameters survive)
  T  "nested tags": continuation lines of parameter / block / tag descriptions that begin with a tag word
     and a colon, indented deeper than (text), equal to or shallower than (tag) the part they follow
     ... and descriptions of annotated parameters / Returns that begin with ':' / '::' (one delimiter only)
  B  every model built from an identifier menu x <=2 parameters x description menu x <=2 tags,
     under a covering set of layouts (quick) / a larger product (thorough)
"""
import itertools
import json
import os

from vt.core import Part, pmap, rotate, stable_hash, HarnessBroken
from vt.scan import c10_blocks as B

LEVEL = 'model_checking'

# ------------------------------------------------------------------ menus ---
SKEL_PARAM = {'name': 'p', 'ann': [], 'desc': [['a', 'value']]}
SKEL_RET = {'name': 'returns', 'ann': [], 'value': None, 'desc': [[['a', 'result']]]}
SKEL_DESC = [[[0, ['Does', 'things.']]]]

IDENTS = [
    (['symbol', 'foo_bar', None], []),
    (['symbol', 'foo_bar', None], [['skip', None]]),
    (['symbol', 'foo-bar_2', None], [['constructor', None], ['rename-to', ['list', ['foo_new']]]]),
    (['property', 'FooBar', 'some-prop'], []),
    (['property', 'FooBar', 'some-prop'], [['transfer', ['list', ['none']]], ['type', ['list', ['utf8']]]]),
    (['signal', 'FooBar', 'some-signal'], []),
    (['signal', 'FooBar', 'changed'], [['attributes', ['dict', [['my.key', 'val'], ['my.key2', None]]]]]),
    (['field', 'FooBar', 'some_field'], []),
    (['section', 'foo_bar', None], []),
    (['action', 'FooBar', 'win.close-all'], []),
]
PARAMS = [
    {'name': 'p', 'ann': [], 'desc': [['a', 'value']]},
    {'name': 'p', 'ann': [['nullable', None]], 'desc': []},
    {'name': 'data', 'ann': [['array', ['dict', [['length', 'n']]]], ['transfer', ['list', ['full']]]],
     'desc': [['an', 'array'], ['of', 'things']]},
    {'name': 'n', 'ann': [['out', None]], 'desc': [['the', 'length:', 'see', 'above']]},
    {'name': '...', 'ann': [], 'desc': [['more', 'arguments']]},
    {'name': 'user_data', 'ann': [['closure', None]], 'desc': []},
    {'name': 'q', 'ann': [], 'desc': []},
]
DESCS = [
    None,
    [[[0, ['Does', 'things.']]]],
    [[[0, ['Does', 'things:']], [2, ['code', '(1);']], [0, ['and', 'more.']]]],
    [[[0, ['First', 'paragraph.']]], [[0, ['Second', 'one,']], [0, ['two', 'lines.']]]],
]
TAGM = [
    {'name': 'returns', 'ann': [], 'value': None, 'desc': [[['a', 'result']]]},
    {'name': 'returns', 'ann': [['transfer', ['list', ['full']]], ['nullable', None]], 'value': None,
     'desc': [[['a', 'new'], ['thing']], [['free', 'it']]]},
    {'name': 'returns', 'ann': [['skip', None]], 'value': None, 'desc': []},
    {'name': 'since', 'ann': [], 'value': '2.0', 'desc': []},
    {'name': 'since', 'ann': [], 'value': '2.10', 'desc': [[['some', 'text']]]},
    {'name': 'deprecated', 'ann': [], 'value': '1.2', 'desc': [[['Use', 'other'], ['instead.']]]},
    {'name': 'deprecated', 'ann': [], 'value': None, 'desc': [[['Use', 'other', 'instead.']]]},
    {'name': 'stability', 'ann': [], 'value': 'Unstable', 'desc': []},
]

# covering set used for family B in the quick tier: every value of every dimension occurs
B_LAYOUTS = [
    dict(B.DEFAULT_LAYOUT),
    {'indent': '', 'eol': '\r\n', 'ann': 'cont', 'wrap': 'words', 'colon': 'alt', 'blank': 'min', 'tagcase': 'lower',
     'gap': 2, 'end': '**/'},
    {'indent': '   ', 'eol': '\r', 'ann': 'cont_rest', 'wrap': 'next', 'colon': 'std', 'blank': 'extra',
     'tagcase': 'upper', 'gap': 1, 'end': '*/'},
    {'indent': '\t', 'eol': '\n', 'ann': 'cont', 'wrap': 'none', 'colon': 'alt', 'blank': 'extra', 'tagcase': 'cap',
     'gap': 1, 'end': '**/'},
    {'indent': ' ', 'eol': '\r\n', 'ann': 'inline', 'wrap': 'next', 'colon': 'alt', 'blank': 'min', 'tagcase': 'cap',
     'gap': 2, 'end': '*/'},
    {'indent': '', 'eol': '\n', 'ann': 'cont_rest', 'wrap': 'words', 'colon': 'std', 'blank': 'min', 'tagcase': 'upper',
     'gap': 1, 'end': '*/'},
    {'indent': '\t', 'eol': '\r', 'ann': 'inline', 'wrap': 'words', 'colon': 'std', 'blank': 'extra', 'tagcase': 'lower',
     'gap': 2, 'end': '**/'},
    {'indent': '   ', 'eol': '\n', 'ann': 'cont', 'wrap': 'next', 'colon': 'std', 'blank': 'min', 'tagcase': 'lower',
     'gap': 1, 'end': '*/'},
]


def _skeleton(pos, ann_list):
    m = {'ident': ['symbol', 'foo_bar', None], 'ann': [], 'params': [dict(SKEL_PARAM)], 'desc': SKEL_DESC,
         'tags': [dict(SKEL_RET)]}
    if pos == B.I:
        m['ann'] = ann_list
    elif pos == B.P:
        m['params'] = [dict(SKEL_PARAM, ann=ann_list)]
    else:
        m['tags'] = [dict(SKEL_RET, ann=ann_list)]
    return m


def models_A():
    out = []
    for pos in (B.I, B.P, B.R):
        for name, opts, doc in B.annotation_menu(pos):
            out.append(_skeleton(pos, [[name, opts]]))
    # identifier forms that take annotations, one annotation each
    for ident in (['property', 'FooBar', 'some-prop'], ['signal', 'FooBar', 'some-signal'], ['field', 'FooBar', 'f']):
        m = _skeleton(B.I, [['skip', None]])
        m['ident'] = ident
        out.append(m)
    for ident in (['action', 'FooBar', 'win.close-all'], ['section', 'foo_bar', None]):
        m = _skeleton(B.I, [])
        m['ident'] = ident
        out.append(m)
    # plain symbols whose names merely begin like the SECTION / action identifier forms
    for name in ('SECTION_COUNT', 'ACTION_FLAGS'):
        for ann in ([], [['skip', None]], [['value', ['list', ['5']]], ['attributes', ['dict', [['my.key', 'val']]]]]):
            m = _skeleton(B.I, ann)
            m['ident'] = ['symbol', name, None]
            out.append(m)
    return out


def models_S():
    """Text containing, in the middle of a line, a character that is white space / a Unicode line
    boundary but not a line ending: it must come back inside the same single line."""
    out = []
    for c in B.ODD_SEPARATORS:
        w = 'left' + c + 'right'
        out.append({'ident': ['symbol', 'foo_bar', None], 'ann': [['attributes', ['dict', [['my.key', 'x' + c + 'y']]]]],
                    'params': [dict(SKEL_PARAM)], 'desc': SKEL_DESC, 'tags': [dict(SKEL_RET)]})
        out.append({'ident': ['symbol', 'foo_bar', None], 'ann': [],
                    'params': [{'name': 'p', 'ann': [['nullable', None]], 'desc': [['a', w, 'value'], ['second', w]]}],
                    'desc': SKEL_DESC, 'tags': [dict(SKEL_RET)]})
        out.append({'ident': ['property', 'FooBar', 'some-prop'], 'ann': [], 'params': [],
                    'desc': [[[0, ['Does', w, 'things.']], [2, ['code', w + ';']]], [[0, [w, 'again']]]], 'tags': []})
        out.append({'ident': ['symbol', 'foo_bar', None], 'ann': [], 'params': [dict(SKEL_PARAM)], 'desc': SKEL_DESC,
                    'tags': [{'name': 'returns', 'ann': [['transfer', ['list', ['full']]]], 'value': None,
                              'desc': [[['a', w, 'result']], [['more', w]]]},
                             {'name': 'since', 'ann': [], 'value': '2.0', 'desc': [[['some', w, 'text']]]}]})
        out.append({'ident': ['section', 'foo_bar', None], 'ann': [],
                    'params': [{'name': 'short_description', 'ann': [], 'desc': [['about', w]]}],
                    'desc': [[[0, [w]]]], 'tags': []})
    return out


def models_N():
    """Parameter names are case sensitive C identifiers: mixed-case names and names differing only in
    case are distinct parameters, kept under the name as written, in order."""
    out = []
    name_seqs = [['srcRGBA'], ['A', 'a'], ['a', 'A'], ['userData', 'userdata', 'user_data'], ['X'], ['Self', 'self'],
                 ['n', 'N', 'nItems'], ['dstX', 'dstY', 'dstx'], ['Data', 'data', 'DATA'], ['isOK', 'ISOK']]
    anns = [[], [['nullable', None]], [['out', None], ['transfer', ['list', ['full']]]]]
    for names in name_seqs:
        for v in range(3):
            ps = []
            for i, n in enumerate(names):
                ps.append({'name': n, 'ann': anns[(i + v) % 3], 'desc': [['the', n, 'value']] if (i + v) % 2 == 0 else []})
            out.append({'ident': ['symbol', 'foo_bar', None], 'ann': [], 'params': ps,
                        'desc': SKEL_DESC if v != 1 else None, 'tags': [dict(SKEL_RET)] if v != 2 else []})
    return out


def models_P(tier):
    out = []
    for pos in (B.I, B.P, B.R):
        menu = B.annotation_menu(pos)
        if tier != 'thorough':
            menu = [x for x in menu if x[2]]
        for a, b in itertools.permutations(menu, 2):
            if a[0] == b[0]:
                continue
            out.append(_skeleton(pos, [[a[0], a[1]], [b[0], b[1]]]))
    return out


def _seqs(menu, key, maxlen=2):
    out = [[]]
    for n in range(1, maxlen + 1):
        for combo in itertools.permutations(menu, n):
            if len(set(c[key] for c in combo)) == len(combo):
                out.append(list(combo))
    return out


def models_B(tier):
    out = []
    # quick: 5-item parameter menu, 6-item tag menu, 3 descriptions; thorough: the full menus
    pmenu = PARAMS if tier == 'thorough' else PARAMS[:5]
    tmenu = TAGM if tier == 'thorough' else [TAGM[i] for i in (0, 1, 2, 4, 5, 7)]
    dmenu = DESCS if tier == 'thorough' else [DESCS[0], DESCS[2], DESCS[3]]
    pseqs = _seqs(pmenu, 'name')
    tseqs = _seqs(tmenu, 'name')
    for ident, iann in IDENTS:
        for ps in pseqs:
            for d in dmenu:
                for ts in tseqs:
                    out.append({'ident': ident, 'ann': iann, 'params': ps, 'desc': d, 'tags': ts})
    return out


def layouts_for(family, tier):
    if family == 'A':
        if tier == 'thorough':
            return list(B.all_layouts())
        lays = list(B.all_layouts(['indent', 'eol', 'ann', 'colon', 'gap']))
        return lays + [l for l in B.one_dim_layouts() if l not in lays]
    if family == 'N':
        return list(B_LAYOUTS) + [l for l in B.all_layouts(['ann', 'wrap']) if l not in B_LAYOUTS]
    if family == 'S':
        lays = list(B_LAYOUTS) + list(B.all_layouts(['eol', 'wrap', 'ann']))
        if tier == 'thorough':
            lays += B.one_dim_layouts()
        out = []
        for l in lays:
            if l not in out:
                out.append(l)
        return out
    if family == 'P':
        if tier == 'thorough':
            return list(B.all_layouts(['eol', 'ann', 'colon', 'gap']))
        return list(B.all_layouts(['ann', 'gap']))
    if tier == 'thorough':
        lays = list(B.all_layouts(['ann', 'wrap', 'colon'])) + B.one_dim_layouts() + B_LAYOUTS
        out = []
        for l in lays:
            if l not in out:
                out.append(l)
        return out
    return B_LAYOUTS


def lay_key(lay):
    return ','.join('%s=%r' % (d, lay[d]) for d in B.DIM_ORDER)


# ------------------------------------------------------------------ oracle ---
_REPARSE = {}


def check_case(model, lay):
    """-> list of (key-suffix, description, extra) problems; also returns counters."""
    problems = []
    text = B.render(model, lay)
    exp = B.expected(model, lay)
    nxt = lay['wrap'] == 'next'
    ref = B.ref_parse(text)
    if (B.lstrip_descs(ref) if nxt else ref) != exp:
        raise HarnessBroken('renderer/expectation self-check failed for %s under %s:\n%s\nref=%s\nexp=%s' % (
            json.dumps(model), lay_key(lay), text, json.dumps(ref), json.dumps(exp)))
    block, recs, exc = B.parse(text)
    evals = 1
    info = {'text': text, 'expected': exp}
    if exc is not None:
        problems.append(('raise', 'parse_comment_block raised %s' % exc, info))
        return problems, evals, None
    if block is None:
        problems.append(('none', 'well-formed block not recognised (parser returned None); diagnostics=%r' % (
            [r['text'] for r in recs],), info))
        return problems, evals, None
    raw = B.abstract(block)
    got = B.lstrip_descs(raw) if nxt else raw
    if got != exp:
        problems.append(('tree', 'parsed tree differs from the model: %s' % _diff(exp, got), dict(info, observed=got)))
    if recs and B.diag_free(model):
        problems.append(('diag', 'diagnostic on a well-formed block: %r' % ([r['text'] for r in recs][:3],), info))
    # writer round trip
    for indent in (True, False):
        try:
            w = B.write(block, indent)
        except Exception as e:   # noqa
            problems.append(('write-raise', 'writer raised %s: %s' % (type(e).__name__, e), info))
            continue
        w1 = w[:-1] if w.endswith('\n') else w
        # parsing is a function of the text: identical writer output is re-parsed once per worker
        if w1 in _REPARSE:
            v2, exc2 = _REPARSE[w1]
        else:
            b2, recs2, exc2 = B.parse(w1)
            evals += 1
            v2 = B.abstract(b2)
            if len(_REPARSE) > 20000:
                _REPARSE.clear()
            _REPARSE[w1] = (v2, exc2)
        if exc2 is not None or v2 != raw:
            kind = 'roundtrip'
            if model['ident'][0] == 'action' and (v2 is None or v2['name'] != raw['name']):
                kind = 'roundtrip-action'
            elif model['ident'][0] == 'symbol' and model['ident'][1].startswith(('SECTION', 'ACTION')) \
                    and v2 is not None and dict(v2, ann=None) == dict(raw, ann=None):
                kind = 'roundtrip-prefix'
            problems.append((kind, 'write(indent=%s) then parse gives a different block: %s' % (
                indent, exc2 or _diff(raw, v2)), dict(info, written=w, reparsed=v2, first=raw)))
    return problems, evals, got


def _diff(a, b):
    if a is None or b is None:
        return 'expected %s, observed %s' % (json.dumps(a)[:200], json.dumps(b)[:200])
    out = []
    for k in ('name', 'ann', 'params', 'desc', 'tags'):
        if a.get(k) != b.get(k):
            out.append('%s: expected %s, observed %s' % (k, json.dumps(a.get(k))[:220], json.dumps(b.get(k))[:220]))
    return '; '.join(out)


def _family_models(family, tier):
    if family == 'A':
        return models_A()
    if family == 'P':
        return models_P(tier)
    if family == 'S':
        return models_S()
    if family == 'N':
        return models_N()
    return models_B(tier)


_CACHE = {}


def _work(chunk):
    family, tier, start, stop = chunk
    part = Part()
    _REPARSE.clear()            # per chunk, so that counts do not depend on which worker gets which chunk
    key = (family, tier)
    if key not in _CACHE:
        _CACHE[key] = (_family_models(family, tier), layouts_for(family, tier))
    models, lays = _CACHE[key]
    for mi in range(start, stop):
        model = models[mi]
        mh = stable_hash(model)[:10]
        seen = set()
        part.add(states=1)
        part.nontrivial('%s:%s' % (family, mh))
        for lay in lays:
            text = B.render(model, lay)
            if text in seen:
                continue
            seen.add(text)
            problems, evals, got = check_case(model, lay)
            part.add(evaluations=evals, transitions=1, traces_validated_against_impl=1)
            if not B.diag_free(model):
                part.add(unspecified=1)         # diagnostics not fixed by the documentation (tree still MUST)
            if got is not None:
                part.outcome(stable_hash(got)[:12])
            for kind, desc, info in problems:
                if model['ident'][0] == 'symbol' and model['ident'][1].startswith('SECTION') and (
                        (got or {}).get('name', '').startswith('SECTION:') or 'SECTION:' in desc):
                    k = 'ident:symbol-beginning-with-SECTION-read-as-section'
                elif kind == 'roundtrip-action':
                    k = 'roundtrip:action-identifier'
                elif kind == 'roundtrip-prefix':
                    k = 'roundtrip:symbol-named-like-section-or-action'
                else:
                    k = '%s:%s:%s:%s' % (kind, family, mh, lay_key(lay))
                part.violation(k, desc, {'model': model, 'layout': lay, 'info': info})
        if mi % 97 == 0:
            part.sample({'family': family, 'comment': B.render(model, lays[(mi // 97) % len(lays)])})
    return part.result()


# ------------------------------------------------------ family D (text cases) ---
def check_deprecated(text, info):
    """An ordinary block that uses a deprecated tag-style annotation: MUST be parsed (not lost, no
    exception), keep its name and the parameters / tags written in it, and survive the writer round trip.
    Where the deprecated annotation and a following free text line end up is UNSPECIFIED."""
    problems = []
    block, recs, exc = B.parse(text)
    evals = 1
    if exc is not None:
        return [('raise', 'parse_comment_block raised %s' % exc, {'text': text})], evals, None
    if block is None:
        return [('none', 'ordinary block with a deprecated tag form not recognised; diagnostics=%r' % (
            [r['text'] for r in recs],), {'text': text})], evals, None
    raw = B.abstract(block)
    if raw['name'] != 'foo_bar':
        problems.append(('tree', 'name: expected "foo_bar", observed %r' % raw['name'], {'text': text}))
    pn = [p[0] for p in raw['params']]
    tn = [t[0] for t in raw['tags']]
    if pn != info['params'] or (info['tags'] is not None and tn != info['tags']):
        problems.append(('tree', 'parameters %r / tags %r, written %r / %r' % (pn, tn, info['params'], info['tags']),
                         {'text': text, 'observed': raw}))
    if info.get('stability'):
        word, canonical, desc = info['stability']
        t = raw['tags'][0] if raw['tags'] else [None, None, None, None]
        val = t[2] or ''
        if (val != word if canonical else val.lower() != word.lower()) or t[3] != desc:
            problems.append(('tree', 'Stability tag: value %r description %r, expected %r (%s) / %r' % (
                t[2], t[3], word, 'exactly' if canonical else 'in any letter case', desc), {'text': text}))
    for indent in (True, False):
        try:
            w = B.write(block, indent)
        except Exception as e:   # noqa
            problems.append(('write-raise', 'writer raised %s: %s' % (type(e).__name__, e), {'text': text}))
            continue
        b2, recs2, exc2 = B.parse(w[:-1] if w.endswith('\n') else w)
        evals += 1
        v2 = B.abstract(b2)
        if not info.get('plain', True) and v2 is not None:
            # unusually spelled tag name: what it denotes is UNSPECIFIED, the block itself must survive
            same = v2['name'] == raw['name'] and [p[0] for p in v2['params']] == pn
        else:
            same = v2 == raw
        if exc2 is not None or not same:
            problems.append(('roundtrip', 'write(indent=%s) then parse gives a different block: %s' % (
                indent, exc2 or _diff(raw, v2)), {'text': text, 'written': w, 'reparsed': v2, 'first': raw}))
    return problems, evals, raw


def _work_D(chunk):
    part = Part()
    for i, (text, info) in chunk:
        problems, evals, got = check_deprecated(text, info)
        part.add(states=1, transitions=1, evaluations=evals, traces_validated_against_impl=1, unspecified=1)
        part.nontrivial('D:%d' % i)
        if got is not None:
            part.outcome(stable_hash(got)[:12])
        for kind, desc, extra in problems:
            part.violation('%s:D:%d' % (kind, i), desc, {'family': 'D', 'text': text, 'info': info})
        if i % 60 == 0:
            part.sample({'family': 'D', 'comment': text})
    return part.result()


# ----------------------------------------------------- family T (nested tags) ---
def check_nested(lines, exp, lay):
    text = B.decorate(lines, lay)
    ref = B.ref_parse(text)
    if ref != exp:
        raise HarnessBroken('nested-tag expectation disagrees with the reference reader:\n%s\nref=%s\nexp=%s' % (
            text, json.dumps(ref), json.dumps(exp)))
    info = {'text': text, 'expected': exp}
    block, recs, exc = B.parse(text)
    evals = 1
    if exc is not None or block is None:
        return [('none', 'block not parsed: %s %r' % (exc, [r['text'] for r in recs]), info)], evals, None
    raw = B.abstract(block)
    problems = []
    if raw != exp:
        problems.append(('tree', 'parsed tree differs from the model: %s' % _diff(exp, raw), dict(info, observed=raw)))
    if recs:
        problems.append(('diag', 'diagnostic on a well-formed block: %r' % ([r['text'] for r in recs][:3],), info))
    for indent in (True, False):
        w = B.write(block, indent)
        b2, recs2, exc2 = B.parse(w[:-1] if w.endswith('\n') else w)
        evals += 1
        v2 = B.abstract(b2)
        if exc2 is not None or v2 != raw:
            problems.append(('roundtrip', 'write(indent=%s) then parse gives a different block: %s' % (
                indent, exc2 or _diff(raw, v2)), dict(info, written=w)))
    return problems, evals, raw


def nested_layouts():
    return list(B.all_layouts(['indent', 'eol'])) + [dict(B.DEFAULT_LAYOUT, end='**/')]


def _work_T(chunk):
    part = Part()
    lays = nested_layouts()
    for i, (lines, exp) in chunk:
        part.add(states=1)
        part.nontrivial('T:%d' % i)
        for li, lay in enumerate(lays):
            problems, evals, got = check_nested(lines, exp, lay)
            part.add(transitions=1, evaluations=evals, traces_validated_against_impl=1)
            if got is not None:
                part.outcome(stable_hash(got)[:12])
            for kind, desc, extra in problems:
                part.violation('%s:T:%d:%d' % (kind, i, li), desc, {'family': 'T', 'lines': lines, 'expected': exp,
                                                                   'layout': lay})
        if i % 40 == 0:
            part.sample({'family': 'T', 'comment': B.decorate(lines, lays[0])})
    return part.result()


# -------------------------------------------------------------- calibration ---
def calibrate():
    cs = B.corpus()
    res = {'corpus_cases': len(cs), 'expressible_by_reference_grammar': 0, 'reference_agrees_with_upstream_tree': 0,
           'abstract_of_impl_agrees_with_upstream_tree': 0, 'writer_output_cases': 0,
           'writer_output_reparse_agrees': 0}
    wrong = []
    for f, i, inp, exp, msgs, outp in cs:
        ref = B.ref_parse(inp)
        if ref is not None:
            res['expressible_by_reference_grammar'] += 1
            synt = [m for m in msgs if not B.SEMANTIC_MSG.search(m)]
            if B.lstrip_descs(ref) == B.lstrip_descs(exp) and not synt:
                res['reference_agrees_with_upstream_tree'] += 1
            else:
                wrong.append('%s#%d' % (f, i))
        b, recs, exc = B.parse(inp, 'test.c', 1)
        if B.coarse(B.abstract(b)) == exp:
            res['abstract_of_impl_agrees_with_upstream_tree'] += 1
        # upstream's expected writer output, where the reference grammar accepts both sides, denotes the same block
        if outp and ref is not None:
            r2 = B.ref_parse(outp)
            if r2 is not None:
                res['writer_output_cases'] += 1
                if B.lstrip_descs(r2) == B.lstrip_descs(ref):
                    res['writer_output_reparse_agrees'] += 1
    if wrong:
        raise HarnessBroken('reference grammar disagrees with upstream expectation on %s' % wrong[:5])
    if res['expressible_by_reference_grammar'] < 150:
        raise HarnessBroken('calibration corpus mostly outside the reference grammar: %r' % res)
    return res


# ---------------------------------------------------------------------- run ---
def run(ctx):
    tier = ctx.tier
    cal = calibrate()
    ctx.set(calibration=cal)
    bounds = {}
    chunks = []
    only = [f for f in os.environ.get('VERIF_FAMILIES', '').split(',') if f]
    if only:
        ctx.cap('family filter VERIF_FAMILIES=%s (debugging aid; default runs all families)' % ','.join(only))
    for family in ('A', 'P', 'S', 'N', 'B'):
        if only and family not in only:
            continue
        models = _family_models(family, tier)
        lays = layouts_for(family, tier)
        bounds['family_%s' % family] = {'models': len(models), 'layouts_per_model': len(lays)}
        step = max(1, min(400, (len(models) + 127) // 128))
        for s in range(0, len(models), step):
            chunks.append((family, tier, s, min(len(models), s + step)))
    bounds['annotation_names'] = len(B.VOCAB)
    bounds['layout_dimensions'] = dict((d, len(B.DIMS[d])) for d in B.DIM_ORDER)
    ctx.set(rule='E1: every block model of families A (each annotation name x documented shape + unknown names at '
                 'identifier/parameter/Returns), P (ordered pairs of annotations in one field), B (identifier menu x '
                 '<=2 parameters x description menu x <=2 tags), S (odd separator characters inside a line) is rendered under every layout of the family\'s layout '
                 'set (distinct renderings only), parsed by the real parser and compared with the view computed from '
                 'the model; the parsed block is written with the real writer (indent on/off), re-parsed and compared. '
                 'non-trivial = distinct model (the oracle is MUST on the tree for every model); unspecified = cases '
                 'whose annotations the documentation does not make valid where they stand (diagnostics not judged)',
            bounds=bounds)
    for r in pmap(_work, rotate(chunks, ctx.seed)):
        ctx.merge(r)
    if not only or 'T' in only:
        T = list(enumerate(B.nested_tag_cases() + B.colon_description_cases()))
        ctx.cov['bounds']['family_T'] = {'cases': len(T), 'layouts_per_case': len(nested_layouts())}
        for r in pmap(_work_T, rotate([T[i::16] for i in range(16) if T[i::16]], ctx.seed)):
            ctx.merge(r)
    if not only or 'D' in only:
        D = list(enumerate(B.deprecated_tag_blocks() + B.odd_tag_blocks() + B.stability_blocks()))
        ctx.cov['bounds']['family_D'] = {'texts': len(D)}
        for r in pmap(_work_D, rotate([D[i::16] for i in range(16) if D[i::16]], ctx.seed)):
            ctx.merge(r)
    ctx.assumptions += [
        'tokens inside one annotation are separated by single blanks; descriptions do not begin with "(" (statement)',
        'the view merges "" and missing descriptions/values, and empty/absent option containers',
        'when a parameter/tag description starts on the line after the part, its leading white space is not judged',
        'action identifiers are known to the tree as ACTION:<class>:<action> (read from the tree, not judged)',
        'trusted: vt/scan/c10_blocks.py reference grammar, calibrated on %d/%d upstream corpus cases' % (
            cal['reference_agrees_with_upstream_tree'], cal['corpus_cases']),
    ]
    if not only and (len(ctx._outcomes) < 50 or ctx.cov['traces_validated_against_impl'] < 1000):
        raise HarnessBroken('vacuous exploration: %d outcomes' % len(ctx._outcomes))


def replay(ctx, case):
    if case.get('family') == 'T':
        print(B.decorate(case['lines'], case['layout']))
        problems, evals, got = check_nested(case['lines'], case['expected'], case['layout'])
        print('expected:', json.dumps(case['expected']))
        print('observed:', json.dumps(got))
        for kind, desc, extra in problems:
            print('%s: %s' % (kind, desc))
        return not problems
    if case.get('family') == 'D':
        print(case['text'])
        problems, evals, got = check_deprecated(case['text'], case['info'])
        print('observed:', json.dumps(got))
        for kind, desc, extra in problems:
            print('%s: %s' % (kind, desc))
        return not problems
    model, lay = case['model'], case['layout']
    print(B.render(model, lay))
    problems, evals, got = check_case(model, lay)
    print('expected:', json.dumps(B.expected(model, lay)))
    print('observed:', json.dumps(got))
    for kind, desc, info in problems:
        print('%s: %s' % (kind, desc))
        if 'written' in info:
            print('writer output:\n' + info['written'])
    return not problems
