"""Computes, from the typelib BYTES (via the independent decoder vt/typelib.py), the same
canonical "path -> value" facts that vt/c/drv_walk.c prints by walking the public
girepository API.  Accessor semantics are taken from the API documentation comments in
girepository/gi*info.c and the format description in gitypelib-internal.h."""
from vt import typelib

TAG_NUM = {t: i for i, t in enumerate(typelib.TAGS)}


def gescape(s):
    """g_strescape(s, NULL)"""
    out = []
    for b in s.encode('utf-8'):
        c = chr(b)
        if c == '\b':
            out.append('\\b')
        elif c == '\f':
            out.append('\\f')
        elif c == '\n':
            out.append('\\n')
        elif c == '\r':
            out.append('\\r')
        elif c == '\t':
            out.append('\\t')
        elif c == '\v':
            out.append('\\v')
        elif c == '\\':
            out.append('\\\\')
        elif c == '"':
            out.append('\\"')
        elif b < 0x20 or b >= 0x7f:
            out.append('\\%03o' % b)
        else:
            out.append(c)
    return ''.join(out)


def s_(v):
    return '<null>' if v is None else '"%s"' % gescape(v)


class Walk(object):
    def __init__(self, model, loaded_namespaces):
        self.m = model
        self.ns = model['namespace']
        self.loaded = set(loaded_namespaces) | {self.ns}
        self.out = {}

    def put(self, path, key, v):
        self.out['%s.%s' % (path, key)] = str(v)

    def qual(self, ref):
        """entry_ref string from the decoder ('Name' local or 'Ns.Name') -> 'Ns.Name'"""
        if ref is None:
            return None
        return ref if '.' in ref else '%s.%s' % (self.ns, ref)

    def attrs(self, path, offset):
        items = [(a['name'], a['value']) for a in self.m['attributes'] if a['offset'] == offset]
        lines = []
        for n, v in items:
            first = [x for x in items if x[0] == n][0][1]
            lines.append('%s=%s|byname=%s' % (gescape(n), gescape(v), gescape(first)))
        lines.sort(key=lambda x: x.encode('utf-8'))
        self.put(path, 'n_attrs', len(lines))
        for i, l in enumerate(lines):
            self.put(path, 'attr.%d' % i, l)
        self.put(path, 'attr_absent', 'null')

    def ret_attrs(self, path, offset):
        items = [(a['name'], a['value']) for a in self.m['attributes'] if a['offset'] == offset]
        lines = []
        for n, v in items:
            first = [x for x in items if x[0] == n][0][1]
            lines.append('%s=%s|byname=%s' % (gescape(n), gescape(v), gescape(first)))
        lines.sort(key=lambda x: x.encode('utf-8'))
        self.put(path, 'n_ret_attrs', len(lines))
        for i, l in enumerate(lines):
            self.put(path, 'ret_attr.%d' % i, l)

    def type(self, path, t, depth=0):
        self.put(path, 'tag', s_(t['tag']))
        self.put(path, 'pointer', t.get('pointer', 0))
        if depth > 4:
            return
        tag = t['tag']
        if tag == 'array':
            self.put(path, 'array_type', typelib.ARRAY_TYPES.index(t['array_type']))
            self.put(path, 'length', t['length'] if t['has_length'] else -1)
            self.put(path, 'fixed_size', t['size'] if t['has_size'] else -1)
            self.put(path, 'zero_terminated', t['zero_terminated'])
            self.type(path + '.elem', t['elem'], depth + 1)
        elif tag == 'interface':
            q = self.qual(t['interface'])
            self.put(path, 'interface', s_(q))
            if q is not None:
                self.put(path, 'interface_unresolved', int(q.split('.', 1)[0] not in self.loaded))
        elif tag in ('glist', 'gslist', 'ghash'):
            for i, p in enumerate(t['params']):
                self.type('%s.param.%d' % (path, i), p, depth + 1)

    def callable(self, path, sig, kind, blob):
        self.type(path + '.ret.type', sig['return_type'])
        self.put(path, 'ret.transfer', 2 if sig['caller_owns_return_value'] else (1 if sig['caller_owns_return_container'] else 0))
        self.put(path, 'ret.may_return_null', sig['may_return_null'])
        self.put(path, 'ret.skip', sig['skip_return'])
        self.put(path, 'instance_transfer', 2 if sig['instance_transfer_ownership'] else 0)
        throws = sig['throws']
        if kind in ('function', 'vfunc'):
            throws = throws or blob.get('throws', 0)
        self.put(path, 'can_throw', int(bool(throws)))
        if kind == 'function':
            ism = int(not blob['constructor'] and not blob['is_static'])
        elif kind in ('vfunc', 'signal'):
            ism = 1
        else:
            ism = 0
        self.put(path, 'is_method', ism)
        self.ret_attrs(path, sig['_offset'])
        self.put(path, 'n_args', len(sig['args']))
        for i, a in enumerate(sig['args']):
            ap = '%s.arg.%d' % (path, i)
            self.put(ap, 'name', s_(a['name']))
            self.put(ap, 'direction', 2 if (a['in'] and a['out']) else (1 if a['out'] else 0))
            self.put(ap, 'transfer', 2 if a['transfer_ownership'] else (1 if a['transfer_container_ownership'] else 0))
            self.put(ap, 'may_be_null', a['nullable'])
            self.put(ap, 'optional', a['optional'])
            self.put(ap, 'caller_allocates', a['caller_allocates'])
            self.put(ap, 'return_value', a['return_value'])
            self.put(ap, 'skip', a['skip'])
            self.put(ap, 'scope', typelib.SCOPES.index(a['scope']) if a['scope'] in typelib.SCOPES else a['scope'])
            self.put(ap, 'closure', a['closure'])
            self.put(ap, 'destroy', a['destroy'])
            self.type(ap + '.type', a['type'])
            self.attrs(ap, a['_offset'])

    def function(self, path, f, container=None):
        self.put(path, 'name', s_(f['name']))
        self.put(path, 'deprecated', f['deprecated'])
        self.put(path, 'symbol', s_(f['symbol']))
        flags = 0
        if not f['constructor'] and not f['is_static']:
            flags |= 1
        if f['constructor']:
            flags |= 2
        if f['getter']:
            flags |= 4
        if f['setter']:
            flags |= 8
        if f['wraps_vfunc']:
            flags |= 16
        if f['throws']:
            flags |= 32
        self.put(path, 'flags', flags)
        if flags & 12:
            props = (container or {}).get('properties', [])
            p = props[f['index']]['name'] if f['index'] < len(props) else None
            self.put(path, 'property', s_(p))
        self.attrs(path, f['_offset'])
        self.callable(path, f['signature'], 'function', f)

    def field(self, path, f):
        self.put(path, 'name', s_(f['name']))
        self.put(path, 'flags', (1 if f['readable'] else 0) | (2 if f['writable'] else 0))
        self.put(path, 'bits', f['bits'])
        self.put(path, 'offset', f['struct_offset'])
        self.attrs(path, f['_offset'])
        if 'callback' in f:
            cb = f['callback']
            self.put(path + '.type', 'tag', s_('interface'))
            self.put(path + '.type', 'pointer', '*')          # not defined for embedded types
            self.put(path + '.type', 'interface', s_('%s.%s' % (self.ns, cb['name'])))
            self.put(path + '.type', 'interface_unresolved', 0)
            self.put(path + '.callback', 'name', s_(cb['name']))
            self.callable(path + '.callback', cb['signature'], 'callback', cb)
        else:
            self.type(path + '.type', f['type'])

    def constant(self, path, c):
        self.put(path, 'name', s_(c['name']))
        self.put(path, 'deprecated', c['deprecated'])
        self.attrs(path, c['_offset'])
        self.type(path + '.type', c['type'])
        tag = c['type']['tag']
        if tag not in ('interface', 'array', 'void'):
            self.put(path, 'value_size', c['size'])
            v = c['value']
            if tag in ('utf8', 'filename'):
                self.put(path, 'value', s_(v))
            elif tag == 'gfloat':
                self.put(path, 'value', '%.9g' % v)
            elif tag == 'gdouble':
                self.put(path, 'value', '%.17g' % v)
            elif tag in ('gboolean', 'gint8', 'guint8', 'gint16', 'guint16', 'gint32', 'guint32', 'gint64', 'guint64',
                         'gunichar'):
                self.put(path, 'value', v)

    def registered(self, path, e):
        self.put(path, 'type_name', s_(e.get('gtype_name')))
        self.put(path, 'type_init', s_(e.get('gtype_init')))

    def prop(self, path, p, container):
        ms = container.get('methods', [])
        self.put(path, 'name', s_(p['name']))
        self.put(path, 'deprecated', p['deprecated'])
        self.put(path, 'flags', (1 if p['readable'] else 0) | (2 if p['writable'] else 0) |
                 (4 if p['construct'] else 0) | (8 if p['construct_only'] else 0))
        self.put(path, 'transfer', 2 if p['transfer_ownership'] else (1 if p['transfer_container_ownership'] else 0))
        # documented: the setter is only available for writable, non construct-only properties,
        # the getter only for readable ones
        setter = ms[p['setter']]['name'] if p['setter'] != 0x3ff and p['setter'] < len(ms) else None
        getter = ms[p['getter']]['name'] if p['getter'] != 0x3ff and p['getter'] < len(ms) else None
        if not p['writable'] or p['construct_only']:
            setter = None
        if not p['readable']:
            getter = None
        self.put(path, 'setter', s_(setter))
        self.put(path, 'getter', s_(getter))
        self.attrs(path, p['_offset'])
        self.type(path + '.type', p['type'])

    def signal(self, path, s, container):
        vs = container.get('vfuncs', [])
        self.put(path, 'name', s_(s['name']))
        self.put(path, 'deprecated', s['deprecated'])
        fl = 0
        for bit, k in enumerate(('run_first', 'run_last', 'run_cleanup', 'no_recurse', 'detailed', 'action', 'no_hooks')):
            if s[k]:
                fl |= 1 << bit
        self.put(path, 'flags', fl)
        self.put(path, 'true_stops_emit', s['true_stops_emit'])
        cc = None
        if s['has_class_closure'] and s['class_closure'] < len(vs):
            cc = vs[s['class_closure']]['name']
        self.put(path, 'class_closure', s_(cc))
        self.attrs(path, s['_offset'])
        self.callable(path, s['signature'], 'signal', s)

    def vfunc(self, path, v, container):
        ms = container.get('methods', [])
        ss = container.get('signals', [])
        self.put(path, 'name', s_(v['name']))
        fl = (1 if v['must_chain_up'] else 0) | (2 if v['must_be_implemented'] else 0) | \
             (4 if v['must_not_be_implemented'] else 0) | (8 if v['throws'] else 0)
        self.put(path, 'flags', fl)
        self.put(path, 'offset', v['struct_offset'])
        self.put(path, 'invoker', s_(ms[v['invoker']]['name'] if v['invoker'] != 0x3ff and v['invoker'] < len(ms) else None))
        sig = None
        if v['class_closure'] and v['signal'] < len(ss):
            sig = ss[v['signal']]['name']
        self.put(path, 'signal', s_(sig))
        self.attrs(path, v['_offset'])
        self.callable(path, v['signature'], 'vfunc', v)

    def methods(self, path, e, with_find=True):
        ms = e.get('methods', [])
        self.put(path, 'n_methods', len(ms))
        names = [m['name'] for m in ms]
        for i, m in enumerate(ms):
            p = '%s.method.%d' % (path, i)
            self.function(p, m, e)
            if with_find:
                # find-by-name returns the first method with that name
                self.put(p, 'find_agrees', int(names.index(m['name']) == i))

    def entry(self, path, e):
        kind = e['kind']
        self.put(path, 'kind', s_(kind))
        self.put(path, 'name', s_(e['name']))
        self.put(path, 'namespace', s_(self.ns))
        if kind == 'function':
            self.function(path, e)
        elif kind == 'callback':
            self.put(path, 'deprecated', e['deprecated'])
            self.attrs(path, e['_offset'])
            self.callable(path, e['signature'], 'callback', e)
        elif kind == 'constant':
            self.constant(path, e)
        elif kind in ('enum', 'flags'):
            self.put(path, 'deprecated', e['deprecated'])
            self.attrs(path, e['_offset'])
            self.registered(path, e)
            self.put(path, 'storage_type', s_(e['storage_type']))
            self.put(path, 'error_domain', s_(e['error_domain']))
            self.put(path, 'n_values', len(e['values']))
            for i, v in enumerate(e['values']):
                p = '%s.value.%d' % (path, i)
                self.put(p, 'name', s_(v['name']))
                val = v['value']
                if v['unsigned_value']:
                    val = val & 0xffffffff
                self.put(p, 'value', val)
                self.put(p, 'deprecated', v['deprecated'])
            self.methods(path, e, with_find=False)
        elif kind in ('struct', 'boxed'):
            self.put(path, 'deprecated', e['deprecated'])
            self.attrs(path, e['_offset'])
            self.registered(path, e)
            self.put(path, 'size', e['size'])
            self.put(path, 'alignment', e['alignment'])
            self.put(path, 'is_gtype_struct', e['is_gtype_struct'])
            self.put(path, 'foreign', e['foreign'])
            self.put(path, 'copy_func', s_(e['copy_func']))
            self.put(path, 'free_func', s_(e['free_func']))
            self.put(path, 'n_fields', len(e['fields']))
            names = [f['name'] for f in e['fields']]
            for i, f in enumerate(e['fields']):
                p = '%s.field.%d' % (path, i)
                self.field(p, f)
                self.put(p, 'find_agrees', int(names.index(f['name']) == i))
            self.methods(path, e)
            self.put(path, 'find_absent_method', 0)
        elif kind == 'union':
            self.put(path, 'deprecated', e['deprecated'])
            self.attrs(path, e['_offset'])
            self.registered(path, e)
            self.put(path, 'size', e['size'])
            self.put(path, 'alignment', e['alignment'])
            self.put(path, 'discriminated', e['discriminated'])
            self.put(path, 'copy_func', s_(e['copy_func']))
            self.put(path, 'free_func', s_(e['free_func']))
            self.put(path, 'n_fields', len(e['fields']))
            for i, f in enumerate(e['fields']):
                self.field('%s.field.%d' % (path, i), f)
            self.methods(path, e)
        elif kind == 'object':
            self.put(path, 'deprecated', e['deprecated'])
            self.attrs(path, e['_offset'])
            self.registered(path, e)
            self.put(path, 'parent', s_(self.qual(e['parent'])))
            gs = e['gtype_struct']
            self.put(path, 'class_struct', s_(gs.split('.')[-1] if gs else None))
            self.put(path, 'abstract', e['abstract'])
            self.put(path, 'final', e['final_'])
            self.put(path, 'fundamental', e['fundamental'])
            for k in ('ref_func', 'unref_func', 'set_value_func', 'get_value_func'):
                self.put(path, k, s_(e[k]))
            self.put(path, 'n_interfaces', len(e['interfaces']))
            for i, n in enumerate(e['interfaces']):
                self.put(path, 'interface.%d' % i, s_(self.qual(n)))
            self.put(path, 'n_fields', len(e['fields']))
            for i, f in enumerate(e['fields']):
                self.field('%s.field.%d' % (path, i), f)
            self.put(path, 'n_properties', len(e['properties']))
            for i, p in enumerate(e['properties']):
                self.prop('%s.property.%d' % (path, i), p, e)
            self.methods(path, e)
            self.put(path, 'n_signals', len(e['signals']))
            snames = [s['name'] for s in e['signals']]
            for i, s in enumerate(e['signals']):
                p = '%s.signal.%d' % (path, i)
                self.signal(p, s, e)
                self.put(p, 'find_agrees', int(snames.index(s['name']) == i))
            self.put(path, 'n_vfuncs', len(e['vfuncs']))
            vnames = [v['name'] for v in e['vfuncs']]
            for i, v in enumerate(e['vfuncs']):
                p = '%s.vfunc.%d' % (path, i)
                self.vfunc(p, v, e)
                self.put(p, 'find_agrees', int(vnames.index(v['name']) == i))
            self.put(path, 'n_constants', len(e['constants']))
            for i, c in enumerate(e['constants']):
                self.constant('%s.constant.%d' % (path, i), c)
            self.put(path, 'find_absent_method', 0)
            self.put(path, 'find_absent_signal', 0)
            self.put(path, 'find_absent_vfunc', 0)
        elif kind == 'interface':
            self.put(path, 'deprecated', e['deprecated'])
            self.attrs(path, e['_offset'])
            self.registered(path, e)
            gs = e['gtype_struct']
            self.put(path, 'iface_struct', s_(gs.split('.')[-1] if gs else None))
            self.put(path, 'n_prerequisites', len(e['prerequisites']))
            for i, n in enumerate(e['prerequisites']):
                self.put(path, 'prerequisite.%d' % i, s_(self.qual(n)))
            self.put(path, 'n_properties', len(e['properties']))
            for i, p in enumerate(e['properties']):
                self.prop('%s.property.%d' % (path, i), p, e)
            self.methods(path, e)
            self.put(path, 'n_signals', len(e['signals']))
            snames = [s['name'] for s in e['signals']]
            for i, s in enumerate(e['signals']):
                p = '%s.signal.%d' % (path, i)
                self.signal(p, s, e)
                self.put(p, 'find_agrees', int(snames.index(s['name']) == i))
            self.put(path, 'n_vfuncs', len(e['vfuncs']))
            vnames = [v['name'] for v in e['vfuncs']]
            for i, v in enumerate(e['vfuncs']):
                p = '%s.vfunc.%d' % (path, i)
                self.vfunc(p, v, e)
                self.put(p, 'find_agrees', int(vnames.index(v['name']) == i))
            self.put(path, 'n_constants', len(e['constants']))
            for i, c in enumerate(e['constants']):
                self.constant('%s.constant.%d' % (path, i), c)

    def run(self):
        m = self.m
        self.put('ns', 'version', s_(m['nsversion']))
        self.put('ns', 'shared_library', s_(m['shared_library']))
        self.put('ns', 'c_prefix', s_(m['c_prefix']))
        deps = sorted(m['dependencies'], key=lambda x: x.encode('utf-8'))
        for i, d in enumerate(deps):
            self.put('ns', 'dep.%d' % i, s_(d))
        self.put('ns', 'n_deps', len(deps))
        local = [e for e in m['entries'] if e.get('local')]
        self.put('ns', 'n_infos', len(local))
        names = [e['name'] for e in local]
        for i, e in enumerate(local):
            p = 'entry.%d' % i
            self.entry(p, e)
            self.put(p, 'find_by_name_agrees', int(names.index(e['name']) == i))
        self.put('ns', 'find_absent', 0)
        return self.out


def parse_driver_output(text):
    out = {}
    dup = []
    for line in text.split('\n'):
        if not line:
            continue
        k, _, v = line.partition('\t')
        if k in out:
            dup.append(k)
        out[k] = v
    return out, dup


def compare(expected, got):
    """-> list of differences between the decoder-derived facts and the API walk."""
    diffs = []
    for k in sorted(set(expected) | set(got)):
        a, b = expected.get(k), got.get(k)
        if a == '*' or (a is not None and k.endswith('.type.pointer') and expected.get(k) == '*'):
            continue
        if a != b:
            diffs.append('%s: typelib bytes say %s, API returned %s' % (k, a, b))
    return diffs
