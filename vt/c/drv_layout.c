/* drv_layout - driver for property C08 (vt/checks/c08.py), "unknown layout" clause.
 *
 * g-ir-compiler makes every g_warning fatal, and every path of giroffsets.c that meets a member of
 * unknown size emits one; the binary therefore never writes the typelib of an aggregate with unknown
 * layout.  This driver does exactly what tools/compiler.c does (parse the GIR with /repo's parser,
 * build the typelib with _g_ir_module_build_typelib) but leaves warnings non-fatal and silent, and
 * writes the typelib bytes unvalidated, so that the "unknown" encodings can be observed.
 *
 *   drv_layout INCLUDEDIR[:INCLUDEDIR...] INPUT.gir OUTPUT.typelib
 *
 * exit 0: typelib written; 1: parse error; 2: usage; 4: build returned NULL
 */
#include <stdio.h>
#include <stdlib.h>
#include <string.h>

#include <glib.h>
#include <glib-object.h>
#include "girepository.h"
#include "girmodule.h"
#include "girnode.h"
#include "girparser.h"
#include "gitypelib-internal.h"

/* girparser.c refers to this variable of tools/compiler.c */
GLogLevelFlags logged_levels;

static int n_warnings;

static void
quiet_handler (const gchar *domain, GLogLevelFlags level, const gchar *message, gpointer data)
{
  if (level & (G_LOG_LEVEL_WARNING | G_LOG_LEVEL_CRITICAL))
    {
      n_warnings++;
      fprintf (stderr, "W: %s\n", message);
    }
  else if (level & G_LOG_LEVEL_ERROR)
    fprintf (stderr, "E: %s\n", message);
}

int
main (int argc, char **argv)
{
  GError *error = NULL;
  GIrParser *parser;
  GIrModule *module;
  GITypelib *typelib;
  gchar **dirs;
  FILE *f;
  int i;

  if (argc != 4)
    {
      fprintf (stderr, "usage: drv_layout INCLUDEDIRS INPUT.gir OUTPUT.typelib\n");
      return 2;
    }
  logged_levels = G_LOG_LEVEL_MASK & ~(G_LOG_LEVEL_MESSAGE | G_LOG_LEVEL_DEBUG);
  g_log_set_always_fatal (G_LOG_LEVEL_ERROR);          /* warnings are NOT fatal here */
  g_log_set_default_handler (quiet_handler, NULL);

  dirs = g_strsplit (argv[1], ":", 0);
  for (i = 0; dirs[i]; i++)
    g_irepository_prepend_search_path (dirs[i]);
  parser = _g_ir_parser_new ();
  _g_ir_parser_set_includes (parser, (const char * const *) dirs);
  module = _g_ir_parser_parse_file (parser, argv[2], &error);
  if (module == NULL)
    {
      fprintf (stderr, "error parsing file %s: %s\n", argv[2], error ? error->message : "?");
      return 1;
    }
  typelib = _g_ir_module_build_typelib (module);
  if (typelib == NULL)
    return 4;
  f = fopen (argv[3], "wb");
  if (f == NULL || fwrite (typelib->data, 1, typelib->len, f) != typelib->len || fclose (f) != 0)
    {
      fprintf (stderr, "cannot write %s\n", argv[3]);
      return 2;
    }
  fprintf (stderr, "warnings: %d\n", n_warnings);
  return 0;
}
