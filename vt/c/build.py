"""Builds /repo's C sources (girepository, cmph, tools) against the hand-written GLib
shim headers in /verif/glibshim and the system's GLib 2.74 runtime libraries.

Output: /verif/.build/c/<hash>[-asan]/{g-ir-compiler,g-ir-generate,lib*.a,drv_*}
The hash covers every input (repo C sources and headers, shim, drivers), so checks
always run binaries rebuilt from /repo's current working tree.
"""
import fcntl
import hashlib
import os
import shutil
import subprocess
import time
from concurrent.futures import ThreadPoolExecutor

from vt.core import ROOT, REPO, HarnessBroken, NCPU

SHIM = os.path.join(ROOT, 'glibshim')
DRV = os.path.join(ROOT, 'vt', 'c')
OUT = os.path.join(ROOT, '.build', 'c')
LIBDIR = '/usr/lib/x86_64-linux-gnu'
SYSLIBS = [os.path.join(LIBDIR, 'lib%s-2.0.so.0' % n) for n in ('gio', 'gobject', 'gmodule', 'glib')]

INT_SRCS = ['girmodule.c', 'girnode.c', 'giroffsets.c', 'girparser.c', 'girwriter.c', 'gthash.c']
REPO_SRCS = ['gdump.c', 'giarginfo.c', 'gibaseinfo.c', 'gicallableinfo.c', 'giconstantinfo.c', 'gienuminfo.c',
             'gifieldinfo.c', 'gifunctioninfo.c', 'ginvoke.c', 'giinterfaceinfo.c', 'giobjectinfo.c',
             'gipropertyinfo.c', 'giregisteredtypeinfo.c', 'girepository.c', 'girffi.c', 'gisignalinfo.c',
             'gistructinfo.c', 'gitypeinfo.c', 'gitypelib.c', 'giunioninfo.c', 'giversion.c', 'givfuncinfo.c']
CMPH_SRCS = ['bdz.c', 'bdz_ph.c', 'bmz8.c', 'bmz.c', 'brz.c', 'buffer_entry.c', 'buffer_manager.c', 'chd.c',
             'chd_ph.c', 'chm.c', 'cmph.c', 'cmph_structs.c', 'compressed_rank.c', 'compressed_seq.c',
             'fch_buckets.c', 'fch.c', 'graph.c', 'hash.c', 'jenkins_hash.c', 'miller_rabin.c', 'select.c',
             'vqueue.c', 'vstack.c']


def _inputs():
    files = []
    gi = os.path.join(REPO, 'girepository')
    for d in (gi, os.path.join(gi, 'cmph'), os.path.join(REPO, 'tools')):
        for f in sorted(os.listdir(d)):
            if f.endswith(('.c', '.h', '.h.in')):
                files.append(os.path.join(d, f))
    for dp, dn, fn in sorted(os.walk(SHIM)):
        dn.sort()
        for f in sorted(fn):
            files.append(os.path.join(dp, f))
    files.append(os.path.join(REPO, 'meson.build'))
    return files


def tree_hash():
    h = hashlib.sha1()
    for f in _inputs():
        h.update(f.encode())
        with open(f, 'rb') as fh:
            h.update(fh.read())
    return h.hexdigest()[:16]


def _version():
    import re
    txt = open(os.path.join(REPO, 'meson.build')).read()
    m = re.search(r"version:\s*'(\d+)\.(\d+)\.(\d+)'", txt)
    return m.groups() if m else ('1', '0', '0')


def _run(cmd, log):
    p = subprocess.run(cmd, stdout=subprocess.PIPE, stderr=subprocess.STDOUT)
    if p.returncode != 0:
        log.append('$ %s\n%s' % (' '.join(cmd), p.stdout.decode('utf-8', 'replace')[-4000:]))
    return p.returncode


class Build(object):
    def __init__(self, d, asan):
        self.dir = d
        self.asan = asan
        self.compiler = os.path.join(d, 'g-ir-compiler')
        self.generate = os.path.join(d, 'g-ir-generate')

    def driver(self, name):
        """Path of the driver vt/c/<name>.c built against this build's static libraries
        (compiled on first use, keyed by the hash of its source)."""
        src = os.path.join(DRV, name + '.c')
        with open(src, 'rb') as f:
            h = hashlib.sha1(f.read()).hexdigest()[:12]
        exe = os.path.join(self.dir, '%s-%s' % (name, h))
        if os.path.exists(exe):
            return exe
        with open(os.path.join(OUT, 'lock'), 'w') as lk:
            fcntl.flock(lk, fcntl.LOCK_EX)
            if os.path.exists(exe):
                return exe
            cc, cflags, ldflags, libs = _toolchain(self.dir, self.asan)
            log = []
            tmp = exe + '.tmp%d' % os.getpid()
            if _run([cc] + cflags + ldflags + [src] + libs + ['-o', tmp], log):
                raise HarnessBroken('driver build failed:\n' + '\n'.join(log[:3]))
            os.replace(tmp, exe)
        return exe

    def env(self):
        e = dict(os.environ)
        if self.asan:
            e['ASAN_OPTIONS'] = 'detect_leaks=0:abort_on_error=1:halt_on_error=1'
            e['UBSAN_OPTIONS'] = 'halt_on_error=1:print_stacktrace=1'
        e.pop('GI_TYPELIB_PATH', None)
        e['G_DEBUG'] = 'fatal-criticals'
        e['LC_ALL'] = 'C'
        return e


def _toolchain(d, asan):
    gi = os.path.join(REPO, 'girepository')
    cc = 'clang' if asan else 'gcc'
    cflags = ['-std=gnu99', '-O1', '-g', '-DHAVE_CONFIG_H', '-DG_IREPOSITORY_COMPILATION', '-DGI_COMPILATION',
              '-DG_LOG_DOMAIN="GLib-GIRepository"',
              '-I' + SHIM, '-I' + d, '-I' + gi, '-I' + REPO, '-I' + os.path.join(gi, 'cmph'),
              '-I/usr/include/x86_64-linux-gnu',
              '-Werror=implicit-function-declaration', '-Werror=incompatible-pointer-types',
              '-Werror=int-conversion', '-Wno-deprecated-declarations']
    ldflags = []
    if asan:
        cflags += ['-fsanitize=address,undefined', '-fno-omit-frame-pointer', '-fno-sanitize-recover=undefined',
                   '-fno-sanitize=alignment']
        ldflags = ['-fsanitize=address,undefined']
    libs = [os.path.join(d, 'libint.a'), os.path.join(d, 'libgirepo.a'), os.path.join(d, 'libint.a'),
            os.path.join(d, 'libcmph.a')] + SYSLIBS + ['-lffi', '-lm', '-ldl']
    return cc, cflags, ldflags, libs


def build(asan=False):
    os.makedirs(OUT, exist_ok=True)
    with open(os.path.join(OUT, 'lock'), 'w') as lk:
        fcntl.flock(lk, fcntl.LOCK_EX)
        h = tree_hash() + ('-asan' if asan else '')
        d = os.path.join(OUT, h)
        if os.path.exists(os.path.join(d, 'OK')):
            return Build(d, asan)
        # keep only the newest builds: remove older dirs of the same flavour
        for old in os.listdir(OUT):
            p = os.path.join(OUT, old)
            if os.path.isdir(p) and old.endswith('-asan') == asan and old != h:
                try:
                    age = time.time() - os.path.getmtime(p)
                except OSError:
                    continue
                if age > 7200:     # another process may still be using a recent build
                    shutil.rmtree(p, ignore_errors=True)
        shutil.rmtree(d, ignore_errors=True)
        os.makedirs(os.path.join(d, 'obj'))
        gi = os.path.join(REPO, 'girepository')
        maj, mnr, mic = _version()
        txt = open(os.path.join(gi, 'giversion.h.in')).read()
        txt = txt.replace('@GI_MAJOR_VERSION@', maj).replace('@GI_MINOR_VERSION@', mnr).replace('@GI_MICRO_VERSION@', mic)
        with open(os.path.join(d, 'giversion.h'), 'w') as f:
            f.write(txt)
        cc, cflags, ldflags, libs = _toolchain(d, asan)
        jobs = []
        for s in INT_SRCS + REPO_SRCS:
            jobs.append((os.path.join(gi, s), os.path.join(d, 'obj', s[:-2] + '.o')))
        for s in CMPH_SRCS:
            jobs.append((os.path.join(gi, 'cmph', s), os.path.join(d, 'obj', 'cmph_' + s[:-2] + '.o')))
        for s in ('compiler.c', 'generate.c'):
            jobs.append((os.path.join(REPO, 'tools', s), os.path.join(d, 'obj', 'tool_' + s[:-2] + '.o')))
        log = []
        with ThreadPoolExecutor(NCPU) as ex:
            rcs = list(ex.map(lambda j: _run([cc] + cflags + ['-c', j[0], '-o', j[1]], log), jobs))
        if any(rcs):
            raise HarnessBroken('C build failed:\n' + '\n'.join(log[:3]))
        o = lambda n: os.path.join(d, 'obj', n + '.o')
        _run(['ar', 'rcs', os.path.join(d, 'libint.a')] + [o(s[:-2]) for s in INT_SRCS], log)
        _run(['ar', 'rcs', os.path.join(d, 'libgirepo.a')] + [o(s[:-2]) for s in REPO_SRCS], log)
        _run(['ar', 'rcs', os.path.join(d, 'libcmph.a')] + [o('cmph_' + s[:-2]) for s in CMPH_SRCS], log)
        links = [('g-ir-compiler', o('tool_compiler'), libs),
                 # generate.c must not pull girparser.o (it references logged_levels defined only in compiler.c)
                 ('g-ir-generate', o('tool_generate'), libs)]
        for name, obj, l in links:
            if _run([cc] + ldflags + [obj] + l + ['-o', os.path.join(d, name)], log):
                raise HarnessBroken('C link failed:\n' + '\n'.join(log[:3]))
        shutil.rmtree(os.path.join(d, 'obj'), ignore_errors=True)
        open(os.path.join(d, 'OK'), 'w').close()
        return Build(d, asan)


if __name__ == '__main__':
    import sys
    import time
    t = time.time()
    b = build('--asan' in sys.argv)
    print(b.dir, '%.1fs' % (time.time() - t))
