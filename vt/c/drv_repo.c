/* drv_repo - interpreter for GIRepository require/prepend/load/query histories (property C17).
 *
 * Reads a script from stdin.  Declarations (apply to every following history):
 *
 *   ns <name>...            namespaces to observe after every operation
 *   vers <version>...       versions probed with g_irepository_is_registered (ns, version)
 *   mem <alias> <file>      read <file> into memory now (parent process); used by 'm'
 *
 * A history is a block
 *
 *   H <id>
 *   p <dir>                 g_irepository_prepend_search_path (dir)
 *   r <ns> <ver|-> <flags>  g_irepository_require (NULL, ns, ver, flags, &err)
 *   q <dir> <ns> <ver|-> <flags>   g_irepository_require_private (NULL, dir, ns, ver, flags, &err)
 *   m <alias> <flags>       g_typelib_new_from_memory (copy of blob) + g_irepository_load_typelib (NULL, t, flags, &err)
 *   O                       print the full observation now (the check asks for it after the last
 *                           operation of every history, and wherever its model needs it earlier)
 *   E
 *
 * The search path and the default repository are process globals.  Two execution modes
 * (directive `mode fork` / `mode reset`, default fork):
 *   fork:  every history is executed in a freshly forked child of this (never initialised) process,
 *          fork without exec (a few children are kept in flight; each sees only its own history);
 *   reset: init_globals() is run once; before every history the default repository is replaced by a
 *          new GIRepository object (g_object_new, exactly what init_globals does) and the search
 *          path is cut back to the list init_globals produced (prepended nodes are in front of it).
 *          The check replays a stated part of the histories in both modes and requires identical
 *          transcripts.
 * For every operation the executing process writes "> op", "= result", "C n"; for every `O` line the
 * L/N lines:
 *
 *   > <op text>
 *   = ok [<returned namespace>] | = err <domain> <code>
 *   C <number of criticals/warnings logged during the operation>
 *   L loaded=<loaded namespaces> dup=<n>
 *   N <ns> reg=<0|1> ver=<v|-> path=<p|-> imm=<a,b|-> trans=<a,b|-> enum=<a,b> edup=<n> isreg=<versions for which is_registered> crit=<n>
 *
 * and the parent terminates the block with 'X <id> exit <status>' or 'X <id> signal <n>'.
 * String lists are printed as sorted sets (their order is not part of the property; edup= counts
 * the duplicates dropped from the enumerate_versions list).  Criticals/warnings
 * emitted by the library are counted (crit=) instead of being fatal.
 */
#include <stdio.h>
#include <stdlib.h>
#include <string.h>
#include <unistd.h>
#include <sys/types.h>
#include <sys/wait.h>

/* The repository implementation is compiled INTO this translation unit (the unmodified source text
 * of /repo, found through the -I of the build): that gives the driver access to the two file-scope
 * statics `default_repository` and `typelib_search_path`, which "reset" mode puts back to their
 * just-initialised values between histories instead of forking (fork costs 1.3-4 ms on the
 * verification VM and does not scale over cores).  The linker then never pulls girepository.o from
 * the static library (every symbol it would provide is already defined here). */
#include "girepository.c"

#define MAXNS 8
#define MAXVER 12
#define MAXMEM 64
#define MAXOPS 16
#define LINE 4096

static char *ns_list[MAXNS];
static int n_ns;
static char *ver_list[MAXVER];
static int n_ver;

static struct { char *alias; guint8 *data; gsize len; } mems[MAXMEM];
static int n_mem;

static char *ops[MAXOPS];
static int n_ops;

static int n_crit;

static void
log_handler (const gchar *domain, GLogLevelFlags level, const gchar *message, gpointer data)
{
  if (level & (G_LOG_LEVEL_CRITICAL | G_LOG_LEVEL_WARNING | G_LOG_LEVEL_ERROR))
    n_crit++;
  if (level & G_LOG_LEVEL_ERROR)
    {
      printf ("! fatal %s\n", message ? message : "");
      fflush (stdout);
    }
}

static int
cmp_str (const void *a, const void *b)
{
  return strcmp (*(char * const *) a, *(char * const *) b);
}

/* prints a NULL-terminated vector as a sorted set, comma separated ("-" when vec is NULL);
 * returns the number of duplicate elements dropped */
static int
print_strv (const char *label, char **vec)
{
  int n = 0, i, k = 0, dup = 0;
  printf (" %s=", label);
  if (vec == NULL)
    {
      printf ("-");
      return 0;
    }
  while (vec[n])
    n++;
  qsort (vec, n, sizeof (char *), cmp_str);
  for (i = 0; i < n; i++)
    {
      if (i > 0 && strcmp (vec[i], vec[i - 1]) == 0)
        {
          dup++;
          continue;
        }
      printf ("%s%s", k++ ? "," : "", vec[i]);
    }
  return dup;
}

static void
observe (void)
{
  char **loaded;
  int i, j;

  loaded = g_irepository_get_loaded_namespaces (NULL);
  printf ("L");
  j = print_strv ("loaded", loaded);
  printf (" dup=%d\n", j);
  g_strfreev (loaded);

  for (i = 0; i < n_ns; i++)
    {
      const char *ns = ns_list[i];
      gboolean reg;
      const char *path;
      GList *versions, *l;
      char **ev;
      int n;

      n_crit = 0;
      reg = g_irepository_is_registered (NULL, ns, NULL);
      printf ("N %s reg=%d", ns, reg ? 1 : 0);
      if (reg)
        {
          const char *v = g_irepository_get_version (NULL, ns);
          char **imm, **trans;
          printf (" ver=%s", v ? v : "-");
          path = g_irepository_get_typelib_path (NULL, ns);
          printf (" path=%s", path ? path : "-");
          imm = g_irepository_get_immediate_dependencies (NULL, ns);
          print_strv ("imm", imm);
          g_strfreev (imm);
          trans = g_irepository_get_dependencies (NULL, ns);
          print_strv ("trans", trans);
          g_strfreev (trans);
        }
      else
        {
          path = g_irepository_get_typelib_path (NULL, ns);
          printf (" ver=- path=%s imm=- trans=-", path ? path : "-");
        }
      versions = g_irepository_enumerate_versions (NULL, ns);
      n = g_list_length (versions);
      ev = g_malloc0 (sizeof (char *) * (n + 1));
      for (l = versions, j = 0; l; l = l->next, j++)
        ev[j] = l->data;
      j = print_strv ("enum", ev);
      printf (" edup=%d", j);
      g_free (ev);
      g_list_free_full (versions, g_free);
      printf (" isreg=");
      n = 0;
      for (j = 0; j < n_ver; j++)
        if (g_irepository_is_registered (NULL, ns, ver_list[j]))
          printf ("%s%s", n++ ? "," : "", ver_list[j]);
      printf (" crit=%d\n", n_crit);
    }
}

static void
report (gboolean ok, const char *retns, GError *error)
{
  if (ok)
    {
      printf ("= ok%s%s", retns ? " " : "", retns ? retns : "");
      if (error != NULL)
        printf (" (error set)");
      printf ("\n");
    }
  else if (error != NULL)
    printf ("= err %s %d\n", g_quark_to_string (error->domain), error->code);
  else
    printf ("= err - -\n");
  g_clear_error (&error);
}

static const char *
opt (const char *s)
{
  return strcmp (s, "-") == 0 ? NULL : s;
}

static int mode_reset;

static void
run_op (char *line)
{
  char a[LINE], b[LINE], c[LINE], d[LINE];
  GError *error = NULL;
  int pre_crit;

  if (strcmp (line, "O") == 0)
    {
      observe ();
      if (!mode_reset)
        fflush (stdout);
      return;
    }
  printf ("> %s\n", line);
  n_crit = 0;
  switch (line[0])
    {
    case 'p':
      if (sscanf (line + 1, "%s", a) != 1)
        exit (3);
      g_irepository_prepend_search_path (a);
      printf ("= ok\n");
      break;
    case 'r':
      {
        GITypelib *t;
        if (sscanf (line + 1, "%s %s %s", a, b, c) != 3)
          exit (3);
        t = g_irepository_require (NULL, a, opt (b), (GIRepositoryLoadFlags) atoi (c), &error);
        report (t != NULL, t ? g_typelib_get_namespace (t) : NULL, error);
        break;
      }
    case 'q':
      {
        GITypelib *t;
        if (sscanf (line + 1, "%s %s %s %s", a, b, c, d) != 4)
          exit (3);
        t = g_irepository_require_private (NULL, a, b, opt (c), (GIRepositoryLoadFlags) atoi (d), &error);
        report (t != NULL, t ? g_typelib_get_namespace (t) : NULL, error);
        break;
      }
    case 'm':
      {
        int i;
        GITypelib *t;
        guint8 *copy;
        const char *ret;
        if (sscanf (line + 1, "%s %s", a, b) != 2)
          exit (3);
        for (i = 0; i < n_mem; i++)
          if (strcmp (mems[i].alias, a) == 0)
            break;
        if (i == n_mem)
          exit (3);
        copy = g_malloc (mems[i].len ? mems[i].len : 1);
        memcpy (copy, mems[i].data, mems[i].len);
        t = g_typelib_new_from_memory (copy, mems[i].len, &error);
        if (t == NULL)
          {
            printf ("= badmem %s %d\n", error ? g_quark_to_string (error->domain) : "-", error ? error->code : -1);
            g_clear_error (&error);
            break;
          }
        ret = g_irepository_load_typelib (NULL, t, (GIRepositoryLoadFlags) atoi (b), &error);
        report (ret != NULL, ret, error);
        break;
      }
    default:
      exit (3);
    }
  pre_crit = n_crit;
  printf ("C %d\n", pre_crit);
  if (!mode_reset)
    fflush (stdout);
}

/* Up to n_slots children are in flight (each writes into its own pipe; a transcript is far smaller
 * than the pipe buffer); transcripts are copied to stdout in history order. */
#define MAXSLOTS 32
static struct { pid_t pid; int fd; char *id; } slots[MAXSLOTS];
static int n_slots = 2, slot_head, slot_count;

static void
drain_one (void)
{
  char buf[8192];
  ssize_t n;
  int status = 0;
  int k = slot_head;

  printf ("H %s\n", slots[k].id);
  fflush (stdout);
  while ((n = read (slots[k].fd, buf, sizeof buf)) != 0)
    {
      if (n < 0)
        continue;
      if (write (1, buf, n) != n)
        exit (4);
    }
  close (slots[k].fd);
  while (waitpid (slots[k].pid, &status, 0) < 0)
    ;
  if (WIFSIGNALED (status))
    printf ("X %s signal %d\n", slots[k].id, WTERMSIG (status));
  else
    printf ("X %s exit %d\n", slots[k].id, WEXITSTATUS (status));
  fflush (stdout);
  g_free (slots[k].id);
  slot_head = (slot_head + 1) % MAXSLOTS;
  slot_count--;
}

static int reset_ready;
static GSList *path_after_init;

static void
run_history_reset (const char *id)
{
  int i;

  if (!reset_ready)
    {
      init_globals ();
      path_after_init = typelib_search_path;
      reset_ready = 1;
    }
  /* drop what earlier histories prepended */
  while (typelib_search_path != path_after_init)
    {
      GSList *next = typelib_search_path->next;
      g_free (typelib_search_path->data);
      g_slist_free_1 (typelib_search_path);
      typelib_search_path = next;
    }
  if (default_repository != NULL)
    g_object_unref (default_repository);
  default_repository = g_object_new (G_TYPE_IREPOSITORY, NULL);

  printf ("H %s\n", id);
  for (i = 0; i < n_ops; i++)
    run_op (ops[i]);
  printf ("X %s exit 0\n", id);
}

static void
run_history (const char *id)
{
  pid_t pid;
  int i, k, fds[2];

  if (mode_reset)
    {
      run_history_reset (id);
      return;
    }

  if (slot_count >= n_slots)
    drain_one ();
  fflush (stdout);
  if (pipe (fds) < 0)
    {
      perror ("pipe");
      exit (4);
    }
  pid = fork ();
  if (pid < 0)
    {
      perror ("fork");
      exit (4);
    }
  if (pid == 0)
    {
      close (fds[0]);
      dup2 (fds[1], 1);
      close (fds[1]);
      alarm (60);
      for (i = 0; i < n_ops; i++)
        run_op (ops[i]);
      fflush (stdout);
      _exit (0);
    }
  close (fds[1]);
  k = (slot_head + slot_count) % MAXSLOTS;
  slots[k].pid = pid;
  slots[k].fd = fds[0];
  slots[k].id = g_strdup (id);
  slot_count++;
}

int
main (int argc, char **argv)
{
  static char line[LINE];
  char id[LINE] = "";
  int in_hist = 0, i;

  if (getenv ("DRV_REPO_JOBS"))
    n_slots = atoi (getenv ("DRV_REPO_JOBS"));
  if (n_slots < 1)
    n_slots = 1;
  if (n_slots > MAXSLOTS)
    n_slots = MAXSLOTS;

  /* criticals must not kill the child (G_DEBUG=fatal-criticals may be set): count them */
  g_log_set_always_fatal (G_LOG_LEVEL_ERROR);
  g_log_set_default_handler (log_handler, NULL);

  while (fgets (line, sizeof line, stdin))
    {
      size_t n = strlen (line);
      while (n > 0 && (line[n - 1] == '\n' || line[n - 1] == '\r'))
        line[--n] = 0;
      if (n == 0 || line[0] == '#')
        continue;
      if (in_hist)
        {
          if (strcmp (line, "E") == 0)
            {
              run_history (id);
              for (i = 0; i < n_ops; i++)
                g_free (ops[i]);
              n_ops = 0;
              in_hist = 0;
            }
          else
            {
              if (n_ops >= MAXOPS)
                return 3;
              ops[n_ops++] = g_strdup (line);
            }
          continue;
        }
      if (line[0] == 'H' && line[1] == ' ')
        {
          strcpy (id, line + 2);
          in_hist = 1;
        }
      else if (strcmp (line, "mode reset") == 0)
        mode_reset = 1;
      else if (strcmp (line, "mode fork") == 0)
        mode_reset = 0;
      else if (strncmp (line, "ns ", 3) == 0)
        {
          char *tok = strtok (line + 3, " ");
          n_ns = 0;
          while (tok && n_ns < MAXNS)
            {
              ns_list[n_ns++] = g_strdup (tok);
              tok = strtok (NULL, " ");
            }
        }
      else if (strncmp (line, "vers ", 5) == 0)
        {
          char *tok = strtok (line + 5, " ");
          n_ver = 0;
          while (tok && n_ver < MAXVER)
            {
              ver_list[n_ver++] = g_strdup (tok);
              tok = strtok (NULL, " ");
            }
        }
      else if (strncmp (line, "mem ", 4) == 0)
        {
          char alias[LINE], file[LINE];
          FILE *f;
          long len;
          if (sscanf (line + 4, "%s %s", alias, file) != 2 || n_mem >= MAXMEM)
            return 3;
          f = fopen (file, "rb");
          if (!f)
            {
              fprintf (stderr, "cannot open %s\n", file);
              return 3;
            }
          fseek (f, 0, SEEK_END);
          len = ftell (f);
          fseek (f, 0, SEEK_SET);
          mems[n_mem].alias = g_strdup (alias);
          mems[n_mem].data = g_malloc (len ? len : 1);
          mems[n_mem].len = len;
          if (fread (mems[n_mem].data, 1, len, f) != (size_t) len)
            return 3;
          fclose (f);
          n_mem++;
        }
      else
        {
          fprintf (stderr, "bad script line: %s\n", line);
          return 3;
        }
    }
  while (slot_count > 0)
    drain_one ();
  return 0;
}
