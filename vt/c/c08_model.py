"""C08 layout model: one abstract description of struct/union/enum declarations, rendered

  (a) as C (real <stdint.h> types) for gcc, which prints sizeof/_Alignof/offsetof,
  (b) as GIR (through vt/girgen.py) for the rebuilt g-ir-compiler,
  (c) through a small hand-written x86-64 SysV layout calculator that is used ONLY to
      cross-check the gcc rendering (a disagreement between (a) and (c) is a harness bug).

Everything is plain JSON-able data so that a violation can be replayed from its case object.

Member type grammar (lists):
  ["b", girname]            basic type (see BASIC)
  ["e", Name]               enumeration / bitfield by value
  ["a", T, k]               fixed-size array of k elements  (["a", T, k, 1]: also marked zero-terminated="1")
  ["v", Name]               struct / union / class instance embedded by value
  ["p", Name]               pointer to a struct / union / enum
  ["cb"]                    function-pointer member (<field><callback/></field>)
  ["ct", Name]              member whose type is a named callback typedef
  ["pa", T]                 pointer used as array (<array c:type="T*"> without fixed-size)
  ["gl", which]             GList* / GSList* / GHashTable* / GError* member
  ["icb"]                   function-pointer member written as a bare <callback> child of the <record> (old scanner
                            output, still accepted): takes a pointer slot but has no FieldBlob
  ["ps", girname]           pointer to a scalar  T *m  (<type name="guint8" c:type="guint8*"/>)
  ["xv", "Ns.Name", CName]  record/union of an included namespace embedded by value (CName: its C declaration)
  ["za", T]                 zero-terminated C array, a pointer (<array c:type="T*"> e.g. gchar**)
  ["ga", which]             GArray* / GPtrArray* / GByteArray* member (<array name="GLib.Array" ...>)
  ["d", Name]               member whose type is a "pointer"/"disguised" record (typedef struct _X *Name;)
  ["al", Name]              member whose type is an <alias> of a basic type
  ["flex", T]               C99 flexible array member  T m[];          (unknown size)
  ["ni", ctype]             non-introspectable member of a type the GIR cannot name (unknown size)
  ["nik", girname]          non-introspectable member of a known basic type
  ["void"]                  member of type void (hand-written GIR only)          (unknown size)
  ["bits", girname, n]      bit-field
  ["anon", is_union, [T..]] inline anonymous struct/union member (scanner writes a nested <record>/<union>)

Declarations:
  ["S", Name, [T..]] struct      ["U", Name, [T..]] union     ["O", Name, [T..]] class (instance struct)
  ["B", Name, [T..]] struct registered as boxed (glib:type-name)
  ["E", Name, [values], is_flags]  enumeration            ["C", Name] callback typedef
  ["P", Name, attr]  typedef struct _Name *Name;  (record with attr="pointer" or "disguised" set)
  ["A", Name, girname]  typedef <basic> Name;  (<alias>)
"""
from vt import girgen as G

# GIR basic name -> (C spelling with real system types, size, alignment) on x86-64 SysV / LP64
BASIC = {
    'gint8': ('int8_t', 1, 1), 'guint8': ('uint8_t', 1, 1), 'gint16': ('int16_t', 2, 2), 'guint16': ('uint16_t', 2, 2),
    'gint32': ('int32_t', 4, 4), 'guint32': ('uint32_t', 4, 4), 'gint64': ('int64_t', 8, 8),
    'guint64': ('uint64_t', 8, 8), 'gfloat': ('float', 4, 4), 'gdouble': ('double', 8, 8),
    'gboolean': ('int', 4, 4), 'gpointer': ('void *', 8, 8), 'utf8': ('const char *', 8, 8),
    'filename': ('const char *', 8, 8), 'gunichar': ('uint32_t', 4, 4), 'GType': ('size_t', 8, 8),
    'gchar': ('char', 1, 1), 'guchar': ('unsigned char', 1, 1), 'gshort': ('short', 2, 2),
    'gushort': ('unsigned short', 2, 2), 'gint': ('int', 4, 4), 'guint': ('unsigned int', 4, 4),
    'glong': ('long', 8, 8), 'gulong': ('unsigned long', 8, 8), 'gssize': ('ssize_t', 8, 8),
    'gsize': ('size_t', 8, 8), 'gintptr': ('intptr_t', 8, 8), 'guintptr': ('uintptr_t', 8, 8),
    'time_t': ('time_t', 8, 8), 'off_t': ('off_t', 8, 8), 'pid_t': ('pid_t', 4, 4), 'uid_t': ('uid_t', 4, 4),
    'dev_t': ('dev_t', 8, 8), 'gid_t': ('gid_t', 4, 4), 'socklen_t': ('socklen_t', 4, 4),
}
GL = {'list': ('GLib.List', 'GList*'), 'slist': ('GLib.SList', 'GSList*'), 'hash': ('GLib.HashTable', 'GHashTable*'),
      'error': ('GLib.Error', 'GError*')}
GA = {'array': ('GLib.Array', 'GArray*', 'gint'), 'ptrarray': ('GLib.PtrArray', 'GPtrArray*', 'gpointer'),
      'bytearray': ('GLib.ByteArray', 'GByteArray*', 'guint8')}
COMPOUND = ('S', 'U', 'O', 'B')

C_PRELUDE = '''#include <stddef.h>
#include <stdint.h>
#include <stdio.h>
#include <sys/types.h>
#include <sys/socket.h>
#include <time.h>
'''


class RawT(G.Ty):
    """A <type> the girgen BASIC table does not know (dev_t ...), or hand-made type XML."""

    def __init__(self, xml):
        self._xml = xml

    def xml(self, out=False):
        return self._xml


class RawField(object):
    """A field (or nested element) rendered from literal XML."""

    def __init__(self, xml):
        self._xml = xml

    def xml(self):
        return self._xml


# ------------------------------------------------------------------ names ---
def _resolve(name, pfx, local):
    return (pfx + name) if name in local else name


# ---------------------------------------------------- reference layout model ---
class Unknown(Exception):
    pass


def enum_abi(values):
    """gcc on x86-64 (no -fshort-enums): unsigned int / int, else (GNU extension) unsigned long / long."""
    lo, hi = min(values), max(values)
    if lo < 0:
        if lo >= -(1 << 31) and hi <= (1 << 31) - 1:
            return 4, 4, 1
        return 8, 8, 1
    if hi <= (1 << 32) - 1:
        return 4, 4, 0
    return 8, 8, 0


def type_sa(t, env, c_view=True):
    """(size, alignment) of a member type.  c_view=True: what C says (flexible array = size 0);
    raises Unknown for members whose size is unknown (c_view=False: also flexible arrays etc.)."""
    k = t[0]
    if k == 'b':
        return BASIC[t[1]][1], BASIC[t[1]][2]
    if k in ('p', 'cb', 'icb', 'ct', 'pa', 'gl', 'd', 'za', 'ga', 'ps'):
        return 8, 8
    if k == 'al':
        return BASIC[env[t[1]][2]][1], BASIC[env[t[1]][2]][2]
    if k == 'e':
        s, a, _ = enum_abi(env[t[1]][2])
        return s, a
    if k == 'a':
        s, a = type_sa(t[1], env, c_view)
        return s * t[2], a
    if k == 'v':
        lay = compound_layout(env[t[1]], env, c_view)
        return lay['size'], lay['align']
    if k == 'xv':
        lay = compound_layout(env[t[2]], env, c_view)
        return lay['size'], lay['align']
    if k == 'anon':
        lay = compound_layout(['U' if t[1] else 'S', '', t[2]], env, c_view)
        return lay['size'], lay['align']
    if k == 'flex':
        if not c_view:
            raise Unknown('flexible array')
        return 0, type_sa(t[1], env, c_view)[1]
    if k == 'nik':
        if not c_view:
            raise Unknown('non-introspectable field')
        return BASIC[t[1]][1], BASIC[t[1]][2]
    if k == 'ni':
        if t[1] == 'long double' and c_view:
            return 16, 16
        raise Unknown('unnameable type %s' % t[1])
    if k == 'void':
        raise Unknown('void')
    if k == 'bits':
        raise Unknown('bit-field')
    raise ValueError(t)


def compound_layout(d, env, c_view=True):
    """x86-64 SysV layout -> {'size','align','offsets'}.  Raises Unknown."""
    union = d[0] == 'U'
    size, align, offs = 0, 1, []
    for t in d[2]:
        s, a = type_sa(t, env, c_view)
        align = max(align, a)
        if union:
            offs.append(0)
            size = max(size, s)
        else:
            size = (size + a - 1) // a * a
            offs.append(size)
            size += s
    size = (size + align - 1) // align * align
    return {'size': size, 'align': align, 'offsets': offs}


def first_unknown(d, env):
    """Index of the first member whose size the GIR does not determine (None if all known);
    members embedding a compound of unknown layout count as unknown."""
    for i, t in enumerate(d[2]):
        try:
            type_sa(t, env, c_view=False)
        except Unknown:
            return i
    return None


def has_kind(t, kinds):
    if t[0] in kinds:
        return True
    if t[0] in ('a', 'flex', 'pa', 'za'):
        return has_kind(t[1], kinds)
    if t[0] == 'anon':
        return any(has_kind(x, kinds) for x in t[2])
    return False


def decl_has_kind(d, kinds):
    return d[0] in COMPOUND and any(has_kind(t, kinds) for t in d[2])


def c_compilable(decls):
    for d in decls:
        if d[0] in COMPOUND:
            for t in d[2]:
                if has_kind(t, ('void',)) or (t[0] == 'ni' and t[1] != 'long double'):
                    return False
    return True


# ----------------------------------------------------------------- C text ---
def c_value(v):
    if v < -(1 << 63) + 1:
        return '(-9223372036854775807L - 1)'
    if v < -(1 << 31) or v > (1 << 32) - 1:
        return '%dL' % v
    if v > (1 << 31) - 1:
        return '%dU' % v
    return '%d' % v


def c_member(t, name, pfx, local):
    k = t[0]
    if k == 'b':
        return '%s %s' % (BASIC[t[1]][0], name)
    if k in ('e', 'v', 'ct', 'd', 'al'):
        return 'C%s %s' % (_resolve(t[1], pfx, local), name)
    if k == 'p':
        return 'C%s *%s' % (_resolve(t[1], pfx, local), name)
    if k == 'ps':
        return '%s *%s' % (BASIC[t[1]][0], name)
    if k == 'xv':
        return 'C%s %s' % (_resolve(t[2], pfx, local), name)
    if k == 'a':
        return '%s[%d]' % (c_member(t[1], name, pfx, local), t[2])
    if k in ('cb', 'icb'):
        return 'void (*%s) (int x)' % name
    if k in ('pa', 'za'):
        return c_member(t[1], '*' + name, pfx, local)
    if k in ('gl', 'ga'):
        return 'void *%s' % name      # GList* / GArray* etc.: an object pointer
    if k == 'flex':
        return '%s[]' % c_member(t[1], name, pfx, local)
    if k == 'nik':
        return '%s %s' % (BASIC[t[1]][0], name)
    if k == 'ni':
        return '%s %s' % (t[1], name)
    if k == 'bits':
        return '%s %s : %d' % (BASIC[t[1]][0], name, t[2])
    if k == 'void':
        return 'void %s' % name          # not valid C; shown in reports only
    if k == 'anon':
        body = ' '.join(c_member(x, 'n%d' % i, pfx, local) + ';' for i, x in enumerate(t[2]))
        return '%s { %s } %s' % ('union' if t[1] else 'struct', body, name)
    raise ValueError(t)


def c_forward(d, pfx, local):
    n = _resolve(d[1], pfx, local)
    if d[0] in COMPOUND:
        kw = 'union' if d[0] == 'U' else 'struct'
        return 'typedef %s _C%s C%s;' % (kw, n, n)
    if d[0] == 'E':
        names = 'ABCDEFGH'
        body = ', '.join('C_%s_%s = %s' % (n.upper(), names[i], c_value(v)) for i, v in enumerate(d[2]))
        return 'typedef enum { %s } C%s;' % (body, n)
    if d[0] == 'C':
        return 'typedef void (*C%s) (int x);' % n
    if d[0] == 'P':
        return 'typedef struct _C%s *C%s;' % (n, n)
    if d[0] == 'A':
        return 'typedef %s C%s;' % (BASIC[d[2]][0], n)
    raise ValueError(d)


def c_define(d, pfx, local):
    if d[0] not in COMPOUND:
        return None
    n = _resolve(d[1], pfx, local)
    kw = 'union' if d[0] == 'U' else 'struct'
    body = ' '.join(c_member(t, 'm%d' % i, pfx, local) + ';' for i, t in enumerate(d[2]))
    return '%s _C%s { %s };' % (kw, n, body)


def c_measures(d, pfx, local):
    """C constant expressions measured for a declaration (same order as expected_numbers)."""
    n = _resolve(d[1], pfx, local)
    if d[0] in COMPOUND:
        ex = ['sizeof (C%s)' % n, '_Alignof (C%s)' % n]
        for i, t in enumerate(d[2]):
            if t[0] != 'bits':
                ex.append('offsetof (C%s, m%d)' % (n, i))
        return ex
    if d[0] == 'E':
        return ['sizeof (C%s)' % n, '_Alignof (C%s)' % n, '((C%s) -1) < 0' % n]
    return []


def n_measures(d):
    if d[0] in COMPOUND:
        return 2 + len([t for t in d[2] if t[0] != 'bits'])
    if d[0] == 'E':
        return 3
    return 0


def c_program(groups):
    """groups: list of (pfx, decls-in-dependency-order).  -> C text of a program printing one number per line."""
    fw, df, ms = [], [], []
    for pfx, decls in groups:
        local = set(d[1] for d in decls)
        for d in decls:
            fw.append(c_forward(d, pfx, local))
        for d in decls:
            x = c_define(d, pfx, local)
            if x:
                df.append(x)
            ms.extend(c_measures(d, pfx, local))
    out = [C_PRELUDE] + fw + df
    out.append('static const unsigned long long T[] = {')
    for i in range(0, len(ms), 4):
        out.append('  ' + ', '.join(ms[i:i + 4]) + ',')
    out.append('  0 };')
    out.append('int main (void) { unsigned i; for (i = 0; i + 1 < sizeof (T) / sizeof (T[0]); i++) '
               'printf ("%llu\\n", T[i]); return 0; }')
    return '\n'.join(out) + '\n'


def split_numbers(groups, numbers):
    """-> {(pfx, declname): [numbers]}"""
    out = {}
    p = 0
    for pfx, decls in groups:
        for d in decls:
            n = n_measures(d)
            if n:
                out[(pfx, d[1])] = numbers[p:p + n]
                p += n
    if p != len(numbers):
        raise ValueError('gcc printed %d numbers, %d expected' % (len(numbers), p))
    return out


def model_numbers(d, env):
    """What the hand-written ABI calculator says gcc must print for d (None if it cannot say)."""
    if d[0] == 'E':
        return list(enum_abi(d[2]))
    if d[0] in COMPOUND:
        if decl_has_kind(d, ('bits',)):
            return None
        lay = compound_layout(d, env, c_view=True)
        return [lay['size'], lay['align']] + lay['offsets']
    return None


# -------------------------------------------------------------------- GIR ---
def gir_type(t, pfx, local):
    k = t[0]
    if k == 'b':
        if t[1] in G.BASIC:
            return G.B(t[1])
        return RawT('<type name="%s" c:type="%s"/>' % (t[1], t[1]))
    if k in ('e', 'v', 'ct', 'd'):
        n = _resolve(t[1], pfx, local)
        return G.I(n, 'C' + n, byref=0)
    if k == 'al':
        n = _resolve(t[1], pfx, local)
        return RawT('<type name="%s" c:type="C%s"/>' % (n, n))
    if k == 'p':
        n = _resolve(t[1], pfx, local)
        return G.I(n, 'C' + n, byref=1)
    if k == 'ps':
        return G.B(t[1], ctype=G.BASIC[t[1]][2] + '*')
    if k == 'xv':
        return G.I(t[1], t[1].replace('.', ''), byref=0)
    if k == 'a':
        # optional 4th item: zero-terminated="1" together with fixed-size (still exactly t[2] elements in C)
        return G.Arr(gir_type(t[1], pfx, local), fixed_size=t[2], zero_terminated=bool(len(t) > 3 and t[3]))
    if k == 'pa':
        el = gir_type(t[1], pfx, local)
        return G.Arr(el, zero_terminated=False, ctype=getattr(el, 'ctype', 'gpointer') + '*')
    if k == 'za':
        el = gir_type(t[1], pfx, local)
        return G.Arr(el, zero_terminated=True, ctype=getattr(el, 'ctype', 'gpointer').replace('const ', '') + '*')
    if k == 'ga':
        kind, ct, el = GA[t[1]]
        return G.Arr(G.B(el), kind=kind, ctype=ct)
    if k == 'gl':
        if t[1] == 'error':
            return G.Err()
        if t[1] == 'hash':
            return G.Hash(G.B('utf8'), G.B('gint'))
        return G.Lst(GL[t[1]][0], G.B('gint'))
    if k == 'flex':
        # what giscanner writes for `T m[];`: an array with neither fixed-size nor c:type
        return G.Arr(gir_type(t[1], pfx, local), zero_terminated=False)
    if k == 'void':
        return G.B('none')
    raise ValueError(t)


def gir_field(t, name, pfx, local):
    k = t[0]
    if k == 'cb':
        cb = G.CallbackT(name, G.Ret(G.B('none')), [G.Param('x', G.B('gint'))])
        return G.FieldN(name, callback=cb, writable=False)
    if k == 'icb':
        return G.CallbackT(name, G.Ret(G.B('none')), [G.Param('x', G.B('gint'))])
    if k == 'ni':
        return RawField('<field name="%s" introspectable="0" writable="1"><type c:type="%s"/></field>' % (name, t[1]))
    if k == 'nik':
        return G.FieldN(name, G.B(t[1]), writable=True, introspectable=False)
    if k == 'bits':
        return G.FieldN(name, G.B(t[1]), writable=True, bits=t[2])
    if k == 'anon':
        inner = ''.join(gir_field(x, 'n%d' % i, pfx, local).xml() for i, x in enumerate(t[2]))
        tag = 'union' if t[1] else 'record'
        return RawField('<%s name="%s" c:type="%s">%s</%s>' % (tag, name, name, inner, tag))
    return G.FieldN(name, gir_type(t, pfx, local), writable=True)


def gir_entry(d, pfx, local):
    n = _resolve(d[1], pfx, local)
    k = d[0]
    if k in ('S', 'U', 'B'):
        fields = [gir_field(t, 'm%d' % i, pfx, local) for i, t in enumerate(d[2])]
        gtype = ('C' + n, 'c_%s_get_type' % n.lower()) if k == 'B' else None
        return G.RecordN(n, fields, union=(k == 'U'), gtype=gtype)
    if k == 'O':
        fields = [gir_field(t, 'm%d' % i, pfx, local) for i, t in enumerate(d[2])]
        return G.ClassN(n, parent=None, fundamental=True, fields=fields)
    if k == 'E':
        names = 'abcdefgh'
        ms = [G.Member(names[i], v, cident='C_%s_%s' % (n.upper(), names[i].upper())) for i, v in enumerate(d[2])]
        return G.EnumN(n, ms, flags=bool(d[3]))
    if k == 'C':
        return G.CallbackT(n, G.Ret(G.B('none')), [G.Param('x', G.B('gint'))], ctype='C' + n)
    if k == 'P':
        return G.RecordN(n, [], pointer=(d[2] == 'pointer'), disguised=(d[2] == 'disguised'))
    if k == 'A':
        return G.AliasN(n, G.B(d[2]))
    raise ValueError(d)


def gir_doc(entry_groups):
    """entry_groups: list of (pfx, decls) in the order in which the entries are to appear in the GIR."""
    entries = []
    for pfx, decls, local in entry_groups:
        for d in decls:
            entries.append(gir_entry(d, pfx, local))
    return G.Doc('Test', '1.0', entries, includes=[('GObject', '2.0'), ('GLib', '2.0')],
                 shared_library='libtest.so.0', c_prefix='C', symbol_prefix='c')


def order_decls(decls, perm):
    """perm: 'dep' (dependency order, inner first), 'rev' (outer first) or a list of indexes."""
    if perm == 'dep':
        return list(decls)
    if perm == 'rev':
        return list(reversed(decls))
    return [decls[i] for i in perm]


def show_c(decls, pfx=''):
    local = set(d[1] for d in decls)
    out = [c_forward(d, pfx, local) for d in decls]
    out += [x for x in (c_define(d, pfx, local) for d in decls) if x]
    return '\n'.join(out)
