/* Walks the public girepository API of one namespace and prints one canonical
 * "path<TAB>value" line per fact.  Used by C09 and C15: the same facts are computed
 * from the typelib bytes by the independent decoder (vt/typelib.py + vt/c/walkmodel.py)
 * and the two texts must be identical.
 *
 * usage: drv_walk <search-dir>[:<search-dir>...] <Namespace> <Version>
 */
#include <stdio.h>
#include <stdlib.h>
#include <string.h>
#include <girepository.h>

static void out (const char *path, const char *fmt, ...) G_GNUC_PRINTF (2, 3);
static void
out (const char *path, const char *fmt, ...)
{
  va_list ap;
  fputs (path, stdout);
  fputc ('\t', stdout);
  va_start (ap, fmt);
  vprintf (fmt, ap);
  va_end (ap);
  fputc ('\n', stdout);
}

static char *
sub (const char *path, const char *fmt, ...) G_GNUC_PRINTF (2, 3);
static char *
sub (const char *path, const char *fmt, ...)
{
  va_list ap;
  char *tail, *r;
  va_start (ap, fmt);
  tail = g_strdup_vprintf (fmt, ap);
  va_end (ap);
  r = g_strconcat (path, ".", tail, NULL);
  g_free (tail);
  return r;
}

static void
out_str (const char *path, const char *key, const char *v)
{
  char *p = sub (path, "%s", key);
  if (v == NULL)
    out (p, "<null>");
  else
    {
      char *e = g_strescape (v, NULL);
      out (p, "\"%s\"", e);
      g_free (e);
    }
  g_free (p);
}

static void
out_int (const char *path, const char *key, long long v)
{
  char *p = sub (path, "%s", key);
  out (p, "%lld", v);
  g_free (p);
}

static int
cmp_pair (const void *a, const void *b)
{
  return strcmp (*(char * const *) a, *(char * const *) b);
}

static void
walk_attrs (const char *path, GIBaseInfo *info)
{
  GIAttributeIter iter = { 0, };
  char *name, *value;
  GPtrArray *arr = g_ptr_array_new ();
  guint i;
  while (g_base_info_iterate_attributes (info, &iter, &name, &value))
    {
      const char *byname = g_base_info_get_attribute (info, name);
      char *en = g_strescape (name, NULL), *ev = g_strescape (value, NULL);
      char *eb = byname ? g_strescape (byname, NULL) : g_strdup ("<null>");
      /* by iteration and by name must agree: both are printed */
      g_ptr_array_add (arr, g_strdup_printf ("%s=%s|byname=%s", en, ev, eb));
      g_free (en); g_free (ev); g_free (eb);
    }
  if (arr->len > 0)     /* qsort(NULL, 0, ...) is undefined */
    qsort (arr->pdata, arr->len, sizeof (gpointer), cmp_pair);
  out_int (path, "n_attrs", arr->len);
  for (i = 0; i < arr->len; i++)
    {
      char *p = sub (path, "attr.%u", i);
      out (p, "%s", (char *) arr->pdata[i]);
      g_free (p);
    }
  {
    char *p = sub (path, "%s", "attr_absent");
    out (p, "%s", g_base_info_get_attribute (info, "no-such-attribute-xyz") ? "found" : "null");
    g_free (p);
  }
  g_ptr_array_free (arr, TRUE);
}

static void
walk_return_attrs (const char *path, GICallableInfo *info)
{
  GIAttributeIter iter = { 0, };
  char *name, *value;
  GPtrArray *arr = g_ptr_array_new ();
  guint i;
  while (g_callable_info_iterate_return_attributes (info, &iter, &name, &value))
    {
      const char *byname = g_callable_info_get_return_attribute (info, name);
      char *en = g_strescape (name, NULL), *ev = g_strescape (value, NULL);
      char *eb = byname ? g_strescape (byname, NULL) : g_strdup ("<null>");
      g_ptr_array_add (arr, g_strdup_printf ("%s=%s|byname=%s", en, ev, eb));
      g_free (en); g_free (ev); g_free (eb);
    }
  if (arr->len > 0)     /* qsort(NULL, 0, ...) is undefined */
    qsort (arr->pdata, arr->len, sizeof (gpointer), cmp_pair);
  out_int (path, "n_ret_attrs", arr->len);
  for (i = 0; i < arr->len; i++)
    {
      char *p = sub (path, "ret_attr.%u", i);
      out (p, "%s", (char *) arr->pdata[i]);
      g_free (p);
    }
  g_ptr_array_free (arr, TRUE);
}

static void
walk_type (const char *path, GITypeInfo *ti, int depth)
{
  GITypeTag tag = g_type_info_get_tag (ti);
  out_str (path, "tag", g_type_tag_to_string (tag));
  out_int (path, "pointer", g_type_info_is_pointer (ti));
  if (depth > 4)
    return;
  switch (tag)
    {
    case GI_TYPE_TAG_ARRAY:
      {
        GITypeInfo *e = g_type_info_get_param_type (ti, 0);
        char *p = sub (path, "%s", "elem");
        out_int (path, "array_type", g_type_info_get_array_type (ti));
        out_int (path, "length", g_type_info_get_array_length (ti));
        out_int (path, "fixed_size", g_type_info_get_array_fixed_size (ti));
        out_int (path, "zero_terminated", g_type_info_is_zero_terminated (ti));
        if (e)
          {
            walk_type (p, e, depth + 1);
            g_base_info_unref ((GIBaseInfo *) e);
          }
        else
          out (p, "<null>");
        g_free (p);
      }
      break;
    case GI_TYPE_TAG_INTERFACE:
      {
        GIBaseInfo *iface = g_type_info_get_interface (ti);
        if (iface)
          {
            char *n = g_strdup_printf ("%s.%s", g_base_info_get_namespace (iface), g_base_info_get_name (iface));
            out_str (path, "interface", n);
            out_int (path, "interface_unresolved", g_base_info_get_type (iface) == GI_INFO_TYPE_UNRESOLVED);
            g_free (n);
            g_base_info_unref (iface);
          }
        else
          out_str (path, "interface", NULL);
      }
      break;
    case GI_TYPE_TAG_GLIST:
    case GI_TYPE_TAG_GSLIST:
    case GI_TYPE_TAG_GHASH:
      {
        int n = tag == GI_TYPE_TAG_GHASH ? 2 : 1, i;
        for (i = 0; i < n; i++)
          {
            GITypeInfo *e = g_type_info_get_param_type (ti, i);
            char *p = sub (path, "param.%d", i);
            if (e)
              {
                walk_type (p, e, depth + 1);
                g_base_info_unref ((GIBaseInfo *) e);
              }
            else
              out (p, "<null>");
            g_free (p);
          }
      }
      break;
    default:
      break;
    }
}

static void
walk_callable (const char *path, GICallableInfo *ci)
{
  int n = g_callable_info_get_n_args (ci), i;
  GITypeInfo *rt = g_callable_info_get_return_type (ci);
  char *p = sub (path, "%s", "ret.type");
  walk_type (p, rt, 0);
  g_free (p);
  g_base_info_unref ((GIBaseInfo *) rt);
  out_int (path, "ret.transfer", g_callable_info_get_caller_owns (ci));
  out_int (path, "ret.may_return_null", g_callable_info_may_return_null (ci));
  out_int (path, "ret.skip", g_callable_info_skip_return (ci));
  out_int (path, "instance_transfer", g_callable_info_get_instance_ownership_transfer (ci));
  out_int (path, "can_throw", g_callable_info_can_throw_gerror (ci));
  out_int (path, "is_method", g_callable_info_is_method (ci));
  walk_return_attrs (path, ci);
  out_int (path, "n_args", n);
  for (i = 0; i < n; i++)
    {
      GIArgInfo *a = g_callable_info_get_arg (ci, i);
      GITypeInfo *t = g_arg_info_get_type (a);
      char *ap = sub (path, "arg.%d", i);
      char *tp = sub (ap, "%s", "type");
      out_str (ap, "name", g_base_info_get_name ((GIBaseInfo *) a));
      out_int (ap, "direction", g_arg_info_get_direction (a));
      out_int (ap, "transfer", g_arg_info_get_ownership_transfer (a));
      out_int (ap, "may_be_null", g_arg_info_may_be_null (a));
      out_int (ap, "optional", g_arg_info_is_optional (a));
      out_int (ap, "caller_allocates", g_arg_info_is_caller_allocates (a));
      out_int (ap, "return_value", g_arg_info_is_return_value (a));
      out_int (ap, "skip", g_arg_info_is_skip (a));
      out_int (ap, "scope", g_arg_info_get_scope (a));
      out_int (ap, "closure", g_arg_info_get_closure (a));
      out_int (ap, "destroy", g_arg_info_get_destroy (a));
      walk_type (tp, t, 0);
      walk_attrs (ap, (GIBaseInfo *) a);
      g_base_info_unref ((GIBaseInfo *) t);
      g_base_info_unref ((GIBaseInfo *) a);
      g_free (tp);
      g_free (ap);
    }
}

static void
walk_function (const char *path, GIFunctionInfo *fi)
{
  GIFunctionInfoFlags fl = g_function_info_get_flags (fi);
  out_str (path, "name", g_base_info_get_name ((GIBaseInfo *) fi));
  out_int (path, "deprecated", g_base_info_is_deprecated ((GIBaseInfo *) fi));
  out_str (path, "symbol", g_function_info_get_symbol (fi));
  out_int (path, "flags", fl);
  if (fl & (GI_FUNCTION_IS_GETTER | GI_FUNCTION_IS_SETTER))
    {
      GIPropertyInfo *p = g_function_info_get_property (fi);
      out_str (path, "property", p ? g_base_info_get_name ((GIBaseInfo *) p) : NULL);
      if (p)
        g_base_info_unref ((GIBaseInfo *) p);
    }
  walk_attrs (path, (GIBaseInfo *) fi);
  walk_callable (path, (GICallableInfo *) fi);
}

static void
walk_field (const char *path, GIFieldInfo *f)
{
  GITypeInfo *t = g_field_info_get_type (f);
  char *tp = sub (path, "%s", "type");
  out_str (path, "name", g_base_info_get_name ((GIBaseInfo *) f));
  out_int (path, "flags", g_field_info_get_flags (f));
  out_int (path, "bits", g_field_info_get_size (f));
  out_int (path, "offset", g_field_info_get_offset (f));
  walk_attrs (path, (GIBaseInfo *) f);
  walk_type (tp, t, 0);
  if (g_type_info_get_tag (t) == GI_TYPE_TAG_INTERFACE)
    {
      GIBaseInfo *iface = g_type_info_get_interface (t);
      /* an embedded callback's container is the field's type info, not a namespace entry */
      if (iface && g_base_info_get_type (iface) == GI_INFO_TYPE_CALLBACK &&
          g_base_info_get_container (iface) != NULL &&
          g_base_info_get_type (g_base_info_get_container (iface)) == GI_INFO_TYPE_TYPE)
        {
          char *cp = sub (path, "%s", "callback");
          out_str (cp, "name", g_base_info_get_name (iface));
          walk_callable (cp, (GICallableInfo *) iface);
          g_free (cp);
        }
      if (iface)
        g_base_info_unref (iface);
    }
  g_base_info_unref ((GIBaseInfo *) t);
  g_free (tp);
}

static void
walk_constant (const char *path, GIConstantInfo *c)
{
  GITypeInfo *t = g_constant_info_get_type (c);
  GIArgument v;
  char *tp = sub (path, "%s", "type");
  GITypeTag tag = g_type_info_get_tag (t);
  out_str (path, "name", g_base_info_get_name ((GIBaseInfo *) c));
  out_int (path, "deprecated", g_base_info_is_deprecated ((GIBaseInfo *) c));
  walk_attrs (path, (GIBaseInfo *) c);
  walk_type (tp, t, 0);
  memset (&v, 0, sizeof v);
  if (tag != GI_TYPE_TAG_INTERFACE && tag != GI_TYPE_TAG_ARRAY && tag != GI_TYPE_TAG_VOID)
    {
      int size = g_constant_info_get_value (c, &v);
      out_int (path, "value_size", size);
      switch (tag)
        {
        case GI_TYPE_TAG_BOOLEAN: out_int (path, "value", v.v_boolean); break;
        case GI_TYPE_TAG_INT8: out_int (path, "value", v.v_int8); break;
        case GI_TYPE_TAG_UINT8: out_int (path, "value", v.v_uint8); break;
        case GI_TYPE_TAG_INT16: out_int (path, "value", v.v_int16); break;
        case GI_TYPE_TAG_UINT16: out_int (path, "value", v.v_uint16); break;
        case GI_TYPE_TAG_INT32: out_int (path, "value", v.v_int32); break;
        case GI_TYPE_TAG_UINT32: out_int (path, "value", v.v_uint32); break;
        case GI_TYPE_TAG_UNICHAR: out_int (path, "value", v.v_uint32); break;
        case GI_TYPE_TAG_INT64: out_int (path, "value", v.v_int64); break;
        case GI_TYPE_TAG_UINT64:
          {
            char *p = sub (path, "%s", "value");
            out (p, "%" G_GUINT64_FORMAT, v.v_uint64);
            g_free (p);
          }
          break;
        case GI_TYPE_TAG_FLOAT:
          {
            char *p = sub (path, "%s", "value");
            out (p, "%.9g", (double) v.v_float);
            g_free (p);
          }
          break;
        case GI_TYPE_TAG_DOUBLE:
          {
            char *p = sub (path, "%s", "value");
            out (p, "%.17g", v.v_double);
            g_free (p);
          }
          break;
        case GI_TYPE_TAG_UTF8:
        case GI_TYPE_TAG_FILENAME:
          out_str (path, "value", v.v_string);
          break;
        default:
          break;
        }
      g_constant_info_free_value (c, &v);
    }
  g_base_info_unref ((GIBaseInfo *) t);
  g_free (tp);
}

static void
walk_registered (const char *path, GIRegisteredTypeInfo *r)
{
  out_str (path, "type_name", g_registered_type_info_get_type_name (r));
  out_str (path, "type_init", g_registered_type_info_get_type_init (r));
}

static void
walk_property (const char *path, GIPropertyInfo *p)
{
  GITypeInfo *t = g_property_info_get_type (p);
  GIFunctionInfo *s = g_property_info_get_setter (p), *g = g_property_info_get_getter (p);
  char *tp = sub (path, "%s", "type");
  out_str (path, "name", g_base_info_get_name ((GIBaseInfo *) p));
  out_int (path, "deprecated", g_base_info_is_deprecated ((GIBaseInfo *) p));
  out_int (path, "flags", g_property_info_get_flags (p));
  out_int (path, "transfer", g_property_info_get_ownership_transfer (p));
  out_str (path, "setter", s ? g_base_info_get_name ((GIBaseInfo *) s) : NULL);
  out_str (path, "getter", g ? g_base_info_get_name ((GIBaseInfo *) g) : NULL);
  walk_attrs (path, (GIBaseInfo *) p);
  walk_type (tp, t, 0);
  if (s) g_base_info_unref ((GIBaseInfo *) s);
  if (g) g_base_info_unref ((GIBaseInfo *) g);
  g_base_info_unref ((GIBaseInfo *) t);
  g_free (tp);
}

static void
walk_signal (const char *path, GISignalInfo *s)
{
  GIVFuncInfo *cc = g_signal_info_get_class_closure (s);
  out_str (path, "name", g_base_info_get_name ((GIBaseInfo *) s));
  out_int (path, "deprecated", g_base_info_is_deprecated ((GIBaseInfo *) s));
  out_int (path, "flags", g_signal_info_get_flags (s));
  out_int (path, "true_stops_emit", g_signal_info_true_stops_emit (s));
  out_str (path, "class_closure", cc ? g_base_info_get_name ((GIBaseInfo *) cc) : NULL);
  if (cc) g_base_info_unref ((GIBaseInfo *) cc);
  walk_attrs (path, (GIBaseInfo *) s);
  walk_callable (path, (GICallableInfo *) s);
}

static void
walk_vfunc (const char *path, GIVFuncInfo *v)
{
  GIFunctionInfo *inv = g_vfunc_info_get_invoker (v);
  GISignalInfo *sig = g_vfunc_info_get_signal (v);
  out_str (path, "name", g_base_info_get_name ((GIBaseInfo *) v));
  out_int (path, "flags", g_vfunc_info_get_flags (v));
  out_int (path, "offset", g_vfunc_info_get_offset (v));
  out_str (path, "invoker", inv ? g_base_info_get_name ((GIBaseInfo *) inv) : NULL);
  out_str (path, "signal", sig ? g_base_info_get_name ((GIBaseInfo *) sig) : NULL);
  if (inv) g_base_info_unref ((GIBaseInfo *) inv);
  if (sig) g_base_info_unref ((GIBaseInfo *) sig);
  walk_attrs (path, (GIBaseInfo *) v);
  walk_callable (path, (GICallableInfo *) v);
}

static void
walk_info (const char *path, GIBaseInfo *info)
{
  GIInfoType t = g_base_info_get_type (info);
  int i, n;
  out_str (path, "kind", g_info_type_to_string (t));
  out_str (path, "name", g_base_info_get_name (info));
  out_str (path, "namespace", g_base_info_get_namespace (info));
  switch (t)
    {
    case GI_INFO_TYPE_FUNCTION:
      walk_function (path, (GIFunctionInfo *) info);
      break;
    case GI_INFO_TYPE_CALLBACK:
      out_int (path, "deprecated", g_base_info_is_deprecated (info));
      walk_attrs (path, info);
      walk_callable (path, (GICallableInfo *) info);
      break;
    case GI_INFO_TYPE_CONSTANT:
      walk_constant (path, (GIConstantInfo *) info);
      break;
    case GI_INFO_TYPE_ENUM:
    case GI_INFO_TYPE_FLAGS:
      {
        GIEnumInfo *e = (GIEnumInfo *) info;
        out_int (path, "deprecated", g_base_info_is_deprecated (info));
        walk_attrs (path, info);
        walk_registered (path, (GIRegisteredTypeInfo *) info);
        out_str (path, "storage_type", g_type_tag_to_string (g_enum_info_get_storage_type (e)));
        out_str (path, "error_domain", g_enum_info_get_error_domain (e));
        n = g_enum_info_get_n_values (e);
        out_int (path, "n_values", n);
        for (i = 0; i < n; i++)
          {
            GIValueInfo *v = g_enum_info_get_value (e, i);
            char *p = sub (path, "value.%d", i);
            out_str (p, "name", g_base_info_get_name ((GIBaseInfo *) v));
            out_int (p, "value", g_value_info_get_value (v));
            out_int (p, "deprecated", g_base_info_is_deprecated ((GIBaseInfo *) v));
            g_base_info_unref ((GIBaseInfo *) v);
            g_free (p);
          }
        n = g_enum_info_get_n_methods (e);
        out_int (path, "n_methods", n);
        for (i = 0; i < n; i++)
          {
            GIFunctionInfo *m = g_enum_info_get_method (e, i);
            char *p = sub (path, "method.%d", i);
            walk_function (p, m);
            g_base_info_unref ((GIBaseInfo *) m);
            g_free (p);
          }
      }
      break;
    case GI_INFO_TYPE_STRUCT:
    case GI_INFO_TYPE_BOXED:
      {
        GIStructInfo *s = (GIStructInfo *) info;
        out_int (path, "deprecated", g_base_info_is_deprecated (info));
        walk_attrs (path, info);
        walk_registered (path, (GIRegisteredTypeInfo *) info);
        out_int (path, "size", g_struct_info_get_size (s));
        out_int (path, "alignment", g_struct_info_get_alignment (s));
        out_int (path, "is_gtype_struct", g_struct_info_is_gtype_struct (s));
        out_int (path, "foreign", g_struct_info_is_foreign (s));
        out_str (path, "copy_func", g_struct_info_get_copy_function (s));
        out_str (path, "free_func", g_struct_info_get_free_function (s));
        n = g_struct_info_get_n_fields (s);
        out_int (path, "n_fields", n);
        for (i = 0; i < n; i++)
          {
            GIFieldInfo *f = g_struct_info_get_field (s, i);
            GIFieldInfo *f2 = g_struct_info_find_field (s, g_base_info_get_name ((GIBaseInfo *) f));
            char *p = sub (path, "field.%d", i);
            walk_field (p, f);
            out_int (p, "find_agrees", f2 != NULL && g_base_info_equal ((GIBaseInfo *) f, (GIBaseInfo *) f2));
            if (f2) g_base_info_unref ((GIBaseInfo *) f2);
            g_base_info_unref ((GIBaseInfo *) f);
            g_free (p);
          }
        n = g_struct_info_get_n_methods (s);
        out_int (path, "n_methods", n);
        for (i = 0; i < n; i++)
          {
            GIFunctionInfo *m = g_struct_info_get_method (s, i);
            GIFunctionInfo *m2 = g_struct_info_find_method (s, g_base_info_get_name ((GIBaseInfo *) m));
            char *p = sub (path, "method.%d", i);
            walk_function (p, m);
            out_int (p, "find_agrees", m2 != NULL && g_base_info_equal ((GIBaseInfo *) m, (GIBaseInfo *) m2));
            if (m2) g_base_info_unref ((GIBaseInfo *) m2);
            g_base_info_unref ((GIBaseInfo *) m);
            g_free (p);
          }
        out_int (path, "find_absent_method", g_struct_info_find_method (s, "no_such_method_xyz") != NULL);
      }
      break;
    case GI_INFO_TYPE_UNION:
      {
        GIUnionInfo *u = (GIUnionInfo *) info;
        out_int (path, "deprecated", g_base_info_is_deprecated (info));
        walk_attrs (path, info);
        walk_registered (path, (GIRegisteredTypeInfo *) info);
        out_int (path, "size", g_union_info_get_size (u));
        out_int (path, "alignment", g_union_info_get_alignment (u));
        out_int (path, "discriminated", g_union_info_is_discriminated (u));
        out_str (path, "copy_func", g_union_info_get_copy_function (u));
        out_str (path, "free_func", g_union_info_get_free_function (u));
        n = g_union_info_get_n_fields (u);
        out_int (path, "n_fields", n);
        for (i = 0; i < n; i++)
          {
            GIFieldInfo *f = g_union_info_get_field (u, i);
            char *p = sub (path, "field.%d", i);
            walk_field (p, f);
            g_base_info_unref ((GIBaseInfo *) f);
            g_free (p);
          }
        n = g_union_info_get_n_methods (u);
        out_int (path, "n_methods", n);
        for (i = 0; i < n; i++)
          {
            GIFunctionInfo *m = g_union_info_get_method (u, i);
            GIFunctionInfo *m2 = g_union_info_find_method (u, g_base_info_get_name ((GIBaseInfo *) m));
            char *p = sub (path, "method.%d", i);
            walk_function (p, m);
            out_int (p, "find_agrees", m2 != NULL && g_base_info_equal ((GIBaseInfo *) m, (GIBaseInfo *) m2));
            if (m2) g_base_info_unref ((GIBaseInfo *) m2);
            g_base_info_unref ((GIBaseInfo *) m);
            g_free (p);
          }
      }
      break;
    case GI_INFO_TYPE_OBJECT:
      {
        GIObjectInfo *o = (GIObjectInfo *) info;
        GIObjectInfo *parent = g_object_info_get_parent (o);
        GIStructInfo *cs = g_object_info_get_class_struct (o);
        out_int (path, "deprecated", g_base_info_is_deprecated (info));
        walk_attrs (path, info);
        walk_registered (path, (GIRegisteredTypeInfo *) info);
        if (parent)
          {
            char *nm = g_strdup_printf ("%s.%s", g_base_info_get_namespace ((GIBaseInfo *) parent),
                                        g_base_info_get_name ((GIBaseInfo *) parent));
            out_str (path, "parent", nm);
            g_free (nm);
            g_base_info_unref ((GIBaseInfo *) parent);
          }
        else
          out_str (path, "parent", NULL);
        out_str (path, "class_struct", cs ? g_base_info_get_name ((GIBaseInfo *) cs) : NULL);
        if (cs) g_base_info_unref ((GIBaseInfo *) cs);
        out_int (path, "abstract", g_object_info_get_abstract (o));
        out_int (path, "final", g_object_info_get_final (o));
        out_int (path, "fundamental", g_object_info_get_fundamental (o));
        out_str (path, "ref_func", g_object_info_get_ref_function (o));
        out_str (path, "unref_func", g_object_info_get_unref_function (o));
        out_str (path, "set_value_func", g_object_info_get_set_value_function (o));
        out_str (path, "get_value_func", g_object_info_get_get_value_function (o));
        n = g_object_info_get_n_interfaces (o);
        out_int (path, "n_interfaces", n);
        for (i = 0; i < n; i++)
          {
            GIInterfaceInfo *f = g_object_info_get_interface (o, i);
            char *p = sub (path, "interface.%d", i);
            char *nm = g_strdup_printf ("%s.%s", g_base_info_get_namespace ((GIBaseInfo *) f),
                                        g_base_info_get_name ((GIBaseInfo *) f));
            out (p, "\"%s\"", nm);
            g_free (nm);
            g_base_info_unref ((GIBaseInfo *) f);
            g_free (p);
          }
        n = g_object_info_get_n_fields (o);
        out_int (path, "n_fields", n);
        for (i = 0; i < n; i++)
          {
            GIFieldInfo *f = g_object_info_get_field (o, i);
            char *p = sub (path, "field.%d", i);
            walk_field (p, f);
            g_base_info_unref ((GIBaseInfo *) f);
            g_free (p);
          }
        n = g_object_info_get_n_properties (o);
        out_int (path, "n_properties", n);
        for (i = 0; i < n; i++)
          {
            GIPropertyInfo *f = g_object_info_get_property (o, i);
            char *p = sub (path, "property.%d", i);
            walk_property (p, f);
            g_base_info_unref ((GIBaseInfo *) f);
            g_free (p);
          }
        n = g_object_info_get_n_methods (o);
        out_int (path, "n_methods", n);
        for (i = 0; i < n; i++)
          {
            GIFunctionInfo *m = g_object_info_get_method (o, i);
            GIFunctionInfo *m2 = g_object_info_find_method (o, g_base_info_get_name ((GIBaseInfo *) m));
            char *p = sub (path, "method.%d", i);
            walk_function (p, m);
            out_int (p, "find_agrees", m2 != NULL && g_base_info_equal ((GIBaseInfo *) m, (GIBaseInfo *) m2));
            if (m2) g_base_info_unref ((GIBaseInfo *) m2);
            g_base_info_unref ((GIBaseInfo *) m);
            g_free (p);
          }
        n = g_object_info_get_n_signals (o);
        out_int (path, "n_signals", n);
        for (i = 0; i < n; i++)
          {
            GISignalInfo *m = g_object_info_get_signal (o, i);
            GISignalInfo *m2 = g_object_info_find_signal (o, g_base_info_get_name ((GIBaseInfo *) m));
            char *p = sub (path, "signal.%d", i);
            walk_signal (p, m);
            out_int (p, "find_agrees", m2 != NULL && g_base_info_equal ((GIBaseInfo *) m, (GIBaseInfo *) m2));
            if (m2) g_base_info_unref ((GIBaseInfo *) m2);
            g_base_info_unref ((GIBaseInfo *) m);
            g_free (p);
          }
        n = g_object_info_get_n_vfuncs (o);
        out_int (path, "n_vfuncs", n);
        for (i = 0; i < n; i++)
          {
            GIVFuncInfo *m = g_object_info_get_vfunc (o, i);
            GIVFuncInfo *m2 = g_object_info_find_vfunc (o, g_base_info_get_name ((GIBaseInfo *) m));
            char *p = sub (path, "vfunc.%d", i);
            walk_vfunc (p, m);
            out_int (p, "find_agrees", m2 != NULL && g_base_info_equal ((GIBaseInfo *) m, (GIBaseInfo *) m2));
            if (m2) g_base_info_unref ((GIBaseInfo *) m2);
            g_base_info_unref ((GIBaseInfo *) m);
            g_free (p);
          }
        n = g_object_info_get_n_constants (o);
        out_int (path, "n_constants", n);
        for (i = 0; i < n; i++)
          {
            GIConstantInfo *m = g_object_info_get_constant (o, i);
            char *p = sub (path, "constant.%d", i);
            walk_constant (p, m);
            g_base_info_unref ((GIBaseInfo *) m);
            g_free (p);
          }
        out_int (path, "find_absent_method", g_object_info_find_method (o, "no_such_method_xyz") != NULL);
        out_int (path, "find_absent_signal", g_object_info_find_signal (o, "no-such-signal-xyz") != NULL);
        out_int (path, "find_absent_vfunc", g_object_info_find_vfunc (o, "no_such_vfunc_xyz") != NULL);
      }
      break;
    case GI_INFO_TYPE_INTERFACE:
      {
        GIInterfaceInfo *o = (GIInterfaceInfo *) info;
        GIStructInfo *cs = g_interface_info_get_iface_struct (o);
        out_int (path, "deprecated", g_base_info_is_deprecated (info));
        walk_attrs (path, info);
        walk_registered (path, (GIRegisteredTypeInfo *) info);
        out_str (path, "iface_struct", cs ? g_base_info_get_name ((GIBaseInfo *) cs) : NULL);
        if (cs) g_base_info_unref ((GIBaseInfo *) cs);
        n = g_interface_info_get_n_prerequisites (o);
        out_int (path, "n_prerequisites", n);
        for (i = 0; i < n; i++)
          {
            GIBaseInfo *f = g_interface_info_get_prerequisite (o, i);
            char *p = sub (path, "prerequisite.%d", i);
            char *nm = g_strdup_printf ("%s.%s", g_base_info_get_namespace (f), g_base_info_get_name (f));
            out (p, "\"%s\"", nm);
            g_free (nm);
            g_base_info_unref (f);
            g_free (p);
          }
        n = g_interface_info_get_n_properties (o);
        out_int (path, "n_properties", n);
        for (i = 0; i < n; i++)
          {
            GIPropertyInfo *f = g_interface_info_get_property (o, i);
            char *p = sub (path, "property.%d", i);
            walk_property (p, f);
            g_base_info_unref ((GIBaseInfo *) f);
            g_free (p);
          }
        n = g_interface_info_get_n_methods (o);
        out_int (path, "n_methods", n);
        for (i = 0; i < n; i++)
          {
            GIFunctionInfo *m = g_interface_info_get_method (o, i);
            GIFunctionInfo *m2 = g_interface_info_find_method (o, g_base_info_get_name ((GIBaseInfo *) m));
            char *p = sub (path, "method.%d", i);
            walk_function (p, m);
            out_int (p, "find_agrees", m2 != NULL && g_base_info_equal ((GIBaseInfo *) m, (GIBaseInfo *) m2));
            if (m2) g_base_info_unref ((GIBaseInfo *) m2);
            g_base_info_unref ((GIBaseInfo *) m);
            g_free (p);
          }
        n = g_interface_info_get_n_signals (o);
        out_int (path, "n_signals", n);
        for (i = 0; i < n; i++)
          {
            GISignalInfo *m = g_interface_info_get_signal (o, i);
            GISignalInfo *m2 = g_interface_info_find_signal (o, g_base_info_get_name ((GIBaseInfo *) m));
            char *p = sub (path, "signal.%d", i);
            walk_signal (p, m);
            out_int (p, "find_agrees", m2 != NULL && g_base_info_equal ((GIBaseInfo *) m, (GIBaseInfo *) m2));
            if (m2) g_base_info_unref ((GIBaseInfo *) m2);
            g_base_info_unref ((GIBaseInfo *) m);
            g_free (p);
          }
        n = g_interface_info_get_n_vfuncs (o);
        out_int (path, "n_vfuncs", n);
        for (i = 0; i < n; i++)
          {
            GIVFuncInfo *m = g_interface_info_get_vfunc (o, i);
            GIVFuncInfo *m2 = g_interface_info_find_vfunc (o, g_base_info_get_name ((GIBaseInfo *) m));
            char *p = sub (path, "vfunc.%d", i);
            walk_vfunc (p, m);
            out_int (p, "find_agrees", m2 != NULL && g_base_info_equal ((GIBaseInfo *) m, (GIBaseInfo *) m2));
            if (m2) g_base_info_unref ((GIBaseInfo *) m2);
            g_base_info_unref ((GIBaseInfo *) m);
            g_free (p);
          }
        n = g_interface_info_get_n_constants (o);
        out_int (path, "n_constants", n);
        for (i = 0; i < n; i++)
          {
            GIConstantInfo *m = g_interface_info_get_constant (o, i);
            char *p = sub (path, "constant.%d", i);
            walk_constant (p, m);
            g_base_info_unref ((GIBaseInfo *) m);
            g_free (p);
          }
      }
      break;
    default:
      break;
    }
}

int
main (int argc, char **argv)
{
  GError *error = NULL;
  GITypelib *tl;
  char **dirs;
  int i, n;
  const char *ns, *ver;

  if (argc != 4)
    {
      fprintf (stderr, "usage: drv_walk dir[:dir] Namespace Version\n");
      return 2;
    }
  ns = argv[2];
  ver = argv[3];
  dirs = g_strsplit (argv[1], ":", 0);
  for (i = 0; dirs[i]; i++)
    ;
  while (i-- > 0)
    g_irepository_prepend_search_path (dirs[i]);
  tl = g_irepository_require (NULL, ns, ver, 0, &error);
  if (tl == NULL)
    {
      printf ("require-error\t%s\n", error->message);
      return 1;
    }
  out_str ("ns", "version", g_irepository_get_version (NULL, ns));
  out_str ("ns", "shared_library", g_irepository_get_shared_library (NULL, ns));
  out_str ("ns", "c_prefix", g_irepository_get_c_prefix (NULL, ns));
  {
    char **deps = g_irepository_get_immediate_dependencies (NULL, ns);
    GPtrArray *a = g_ptr_array_new ();
    for (i = 0; deps && deps[i]; i++)
      g_ptr_array_add (a, deps[i]);
    if (a->len > 0)
      qsort (a->pdata, a->len, sizeof (gpointer), cmp_pair);
    for (i = 0; i < (int) a->len; i++)
      {
        char *p = g_strdup_printf ("ns.dep.%d", i);
        out (p, "\"%s\"", (char *) a->pdata[i]);
        g_free (p);
      }
    out_int ("ns", "n_deps", a->len);
  }
  n = g_irepository_get_n_infos (NULL, ns);
  out_int ("ns", "n_infos", n);
  for (i = 0; i < n; i++)
    {
      GIBaseInfo *info = g_irepository_get_info (NULL, ns, i);
      GIBaseInfo *byname = g_irepository_find_by_name (NULL, ns, g_base_info_get_name (info));
      char *p = g_strdup_printf ("entry.%d", i);
      walk_info (p, info);
      out_int (p, "find_by_name_agrees", byname != NULL && g_base_info_equal (info, byname));
      if (byname)
        g_base_info_unref (byname);
      g_base_info_unref (info);
      g_free (p);
    }
  out_int ("ns", "find_absent", g_irepository_find_by_name (NULL, ns, "NoSuchEntryXyz") != NULL);
  return 0;
}
