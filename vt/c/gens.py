"""Exhaustive generators of GIR entries (one element kind at a time, full cross product of
that kind's own attributes over trimmed (quick) or full (thorough) domains)."""
import itertools

from vt.girgen import (AliasUse, B, I, Arr, Lst, Hash, Err, Param, Ret, Function, Method, Constructor, CallbackT, Signal,
                       VFunc, FieldN, Prop, ConstN, Member, EnumN, RecordN, ClassN, AliasN, BASIC)

BASIC_NAMES = sorted(BASIC)


def types_menu(tier):
    """(label, Ty factory) - type usages valid as parameter/return/field/property types."""
    out = []
    for n in BASIC_NAMES:
        if n == 'none':
            continue
        out.append(('b:' + n, lambda n=n: B(n)))
    out.append(('b:gint*', lambda: B('gint', 'gint*', byref=1)))
    out.append(('b:utf8-nonconst', lambda: B('utf8', 'gchar*')))
    out += [
        ('i:local-rec', lambda: I('Rec', 'CRec')),
        ('i:local-rec-byval', lambda: I('Rec', 'CRec', byref=0)),
        ('i:local-enum', lambda: I('En', 'CEn', byref=0)),
        ('i:local-obj', lambda: I('Obj', 'CObj')),
        ('i:local-cb', lambda: I('Cb', 'CCb', byref=0)),
        ('i:x-obj', lambda: I('GObject.Object', 'GObject')),
        ('i:x-cb', lambda: I('GLib.DestroyNotify', 'GDestroyNotify', byref=0)),
        ('i:x-enum', lambda: I('GLib.SeekType', 'GSeekType', byref=0)),
        ('err', lambda: Err()),
        ('list:utf8', lambda: Lst('GLib.List', B('utf8'))),
        ('slist:obj', lambda: Lst('GLib.SList', I('Obj', 'CObj'))),
        ('list:bare', lambda: Lst('GLib.List')),
        ('hash:utf8,int', lambda: Hash(B('utf8'), B('gint'))),
        ('hash:bare', lambda: Hash()),
        ('hash:utf8,list', lambda: Hash(B('utf8'), Lst('GLib.List', B('utf8')))),
    ]
    elems = [('utf8', lambda: B('utf8')), ('guint8', lambda: B('guint8')), ('rec', lambda: I('Rec', 'CRec')),
             ('gint', lambda: B('gint'))]
    if tier == 'thorough':
        elems += [('gdouble', lambda: B('gdouble')), ('obj', lambda: I('Obj', 'CObj')),
                  ('arr', lambda: Arr(B('utf8'))), ('gpointer', lambda: B('gpointer'))]
    for en, ef in elems:
        for kind in (None, 'GLib.Array', 'GLib.PtrArray', 'GLib.ByteArray'):
            if kind is None:
                for zt in (None, False, True):
                    for length in (None, 0, 2):
                        for size in (None, 0, 4):      # fixed-size="0" is a stored size, not "no size"
                            if length is not None and size is not None:
                                continue   # ArrayTypeBlob.dimensions is a union: both cannot be represented
                            out.append(('arr:%s:c:zt=%s:len=%s:size=%s' % (en, zt, length, size),
                                        lambda ef=ef, zt=zt, length=length, size=size:
                                        Arr(ef(), None, zt, length, size, 'gpointer')))
            else:
                if kind == 'GLib.ByteArray' and en != 'guint8':
                    continue   # a GByteArray always holds guint8
                out.append(('arr:%s:%s' % (en, kind), lambda ef=ef, kind=kind: Arr(ef(), kind, ctype='gpointer')))
    return out


def param_flag_space(tier):
    dirs = ['in', 'out', 'inout']
    transfers = ['none', 'container', 'full']
    if tier == 'thorough':
        scopes = [None, 'call', 'async', 'notified', 'forever']
        closures = [None, 0, 2]
        destroys = [None, 1]
    else:
        scopes = [None, 'call', 'notified']
        closures = [None, 2]
        destroys = [None, 1]
    for d, t, nullable, optional, ca, an, skip, sc, cl, de in itertools.product(
            dirs, transfers, (0, 1), (0, 1), (0, 1), (0, 1), (0, 1), scopes, closures, destroys):
        if ca and d != 'out':
            continue
        if tier != 'thorough':
            # trimmed: at most three of the independent booleans set at once
            if nullable + optional + an + skip > 2:
                continue
        yield dict(direction=d, transfer=t, nullable=bool(nullable), optional=bool(optional),
                   caller_allocates=bool(ca), allow_none=bool(an), skip=bool(skip), scope=sc, closure=cl, destroy=de)


def gen_functions(tier):
    """Functions covering the whole parameter-flag cross product (3 params per function)."""
    space = list(param_flag_space(tier))
    n = 0
    for i in range(0, len(space), 3):
        grp = space[i:i + 3]
        ps = []
        for j, kw in enumerate(grp):
            ty = I('Cb', 'CCb', byref=0) if kw['scope'] else B('gint' if j % 2 else 'utf8')
            ps.append(Param('p%d' % j, ty, **kw))
        while len(ps) < 3:
            ps.append(Param('p%d' % len(ps), B('gpointer')))
        yield ('fn-flags-%d' % n, Function('ff%d' % n, Ret(), ps))
        n += 1
    # return-value and function-level flags
    k = 0
    for transfer, nullable, skip, throws, deprecated in itertools.product(('none', 'container', 'full'), (0, 1), (0, 1),
                                                                          (0, 1), (0, 1)):
        yield ('fn-ret-%d' % k, Function('fr%d' % k, Ret(B('utf8'), transfer, bool(nullable), bool(skip)),
                                         [Param('a', B('gint'))], throws=bool(throws), deprecated=bool(deprecated)))
        k += 1
    yield ('fn-noparams', Function('fnone', Ret(B('gint'))))
    yield ('fn-shadows', Function('fshadow_long', Ret(), [], shadows='fshadow'))
    yield ('fn-hidden', Function('fhidden', Ret(), [], introspectable=False))
    yield ('fn-movedto', Function('fmoved', Ret(), [], moved_to='Other.thing'))
    yield ('fn-attrs', Function('fattrs', Ret(B('gint'), attributes=[('ret.k', 'rv')]),
                                [Param('a', B('gint'), attributes=[('p.k', 'pv')])],
                                attributes=[('k1', 'v1'), ('k2', 'v <&> "2"')]))
    for n_args in ((126, 127, 128) if tier == 'thorough' else (127,)):
        ps = [Param('a%d' % i, B('gint')) for i in range(n_args)]
        ps[0] = Param('a0', I('Cb', 'CCb', byref=0), scope='notified', closure=n_args - 1, destroy=n_args - 2)
        yield ('fn-%dargs' % n_args, Function('fbig%d' % n_args, Ret(), ps))


def gen_type_positions(tier):
    """Every type usage in every position: in-param, out-param, return, callback param."""
    k = 0
    for label, tf in types_menu(tier):
        is_arr_len = label.startswith('arr:') and 'len=2' in label
        extra = [Param('x1', B('gint')), Param('x2', B('gint'))] if is_arr_len else []
        if label.startswith('arr:') and 'len=0' in label:
            # length index 0 must name a parameter: put the array second
            yield ('ty-in:' + label, Function('ti%d' % k, Ret(), [Param('n', B('gint')), Param('a', tf())]))
            yield ('ty-out:' + label, Function('to%d' % k, Ret(), [Param('n', B('gint'), direction='out', transfer='full'),
                                                                  Param('a', tf(), direction='out', transfer='full')]))
        else:
            yield ('ty-in:' + label, Function('ti%d' % k, Ret(), [Param('a', tf())] + extra))
            yield ('ty-out:' + label, Function('to%d' % k, Ret(), [Param('a', tf(), direction='out', transfer='full')] + extra))
        if not (label.startswith('arr:') and ('len=' in label and 'len=None' not in label)):
            yield ('ty-ret:' + label, Function('tr%d' % k, Ret(tf(), 'full')))
        k += 1


def gen_callbacks(tier):
    yield ('cb-basic', CallbackT('Cb', Ret(), [Param('data', B('gpointer'), nullable=True, closure=0)], ctype='CCb'))
    yield ('cb-ret', CallbackT('Cb2', Ret(B('gboolean')), [Param('s', B('utf8')), Param('o', I('Obj', 'CObj'))],
                               ctype='CCb2', throws=True))
    yield ('cb-dep', CallbackT('Cb3', Ret(), [], ctype='CCb3', deprecated=True))
    yield ('cb-hidden', CallbackT('CbHidden', Ret(), [], ctype='CCbH', introspectable=False))


INT_BOUNDS = {
    'gint8': (-128, 127), 'guint8': (0, 255), 'gint16': (-32768, 32767), 'guint16': (0, 65535),
    'gint32': (-2 ** 31, 2 ** 31 - 1), 'guint32': (0, 2 ** 32 - 1), 'gint64': (-2 ** 63, 2 ** 63 - 1),
    'guint64': (0, 2 ** 64 - 1),
}


def gen_constants(tier):
    k = 0
    for n in BASIC_NAMES:
        tag = BASIC[n][0]
        if tag in INT_BOUNDS:
            lo, hi = INT_BOUNDS[tag]
            vals = sorted(set([lo, hi, 0, 1, -1 if lo < 0 else 2, hi - 1, lo + 1]))
            for v in vals:
                yield ('const:%s=%d' % (n, v), ConstN('K%d' % k, B(n), str(v)))
                k += 1
        elif tag == 'gboolean':
            for v in ('true', 'false'):
                yield ('const:%s=%s' % (n, v), ConstN('K%d' % k, B(n), v))
                k += 1
        elif tag in ('gfloat', 'gdouble'):
            for v in ('0.000000', '1.500000', '-2.250000', '1000000.000000') + (('0.333333', '123456789.125000') if tag == 'gdouble' else ()):
                yield ('const:%s=%s' % (n, v), ConstN('K%d' % k, B(n), v))
                k += 1
        elif tag in ('utf8', 'filename'):
            for v in ('', 'a', 'hello world', 'é☃', 'x' * 300, '<&>"\'', 'a\tb'):
                yield ('const:%s=%r' % (n, v[:12]), ConstN('K%d' % k, B(n), v))
                k += 1
        elif tag == 'gunichar':
            for v in (0, 65, 0x10ffff):
                yield ('const:gunichar=%d' % v, ConstN('K%d' % k, B(n), str(v)))
                k += 1
    yield ('const:dep', ConstN('KDEP', B('gint'), '3', deprecated=True))
    yield ('const:hidden', ConstN('KHID', B('gint'), '3', introspectable=False))
    yield ('const:attrs', ConstN('KATTR', B('gint'), '3', attributes=[('a', 'b')]))


def gen_enums(tier):
    vals = [0, 1, -1, 127, 128, 255, 256, 32767, 32768, 65535, 65536, 2 ** 31 - 1, -2 ** 31, 2 ** 31, 2 ** 32 - 1]
    k = 0
    yield ('enum-empty', EnumN('E%d' % k, []))
    k += 1
    for flags in (False, True):
        for v in vals:
            if flags and v < 0:
                continue
            yield ('enum1:%s:%d' % (flags, v), EnumN('E%d' % k, [Member('a', v)], flags=flags))
            k += 1
    pairs = list(itertools.combinations(vals, 2)) if tier == 'thorough' else list(itertools.combinations(vals[:9], 2))
    for a, b in pairs:
        yield ('enum2:%d,%d' % (a, b), EnumN('E%d' % k, [Member('a', a), Member('b', b)]))
        k += 1
    yield ('enum-gtype', EnumN('EGt', [Member('a', 0), Member('b', 1, deprecated=True)], gtype=('CEGt', 'c_egt_get_type')))
    yield ('enum-errdomain', EnumN('EErr', [Member('failed', 0)], error_domain='test-err-quark'))
    yield ('enum-dep', EnumN('EDep', [Member('a', 0)], deprecated=True))
    yield ('enum-hidden', EnumN('EHid', [Member('a', 0)], introspectable=False))
    yield ('enum-fn', EnumN('EFn', [Member('a', 0)], functions=[Function('quark', Ret(B('guint32')), symbol='c_efn_quark')]))
    yield ('enum-attrs', EnumN('EAttr', [Member('a', 0)], attributes=[('ea', 'ev')]))
    yield ('flags-gtype', EnumN('FGt', [Member('a', 1), Member('b', 2)], flags=True, gtype=('CFGt', 'c_fgt_get_type')))
    # the local helper entries referenced by the type menu
    yield ('enum-En', EnumN('En', [Member('x', 0), Member('y', 1)]))


def field_types(tier):
    out = [('gint', lambda: B('gint')), ('utf8', lambda: B('utf8')), ('gpointer', lambda: B('gpointer')),
           ('gint64', lambda: B('gint64')), ('rec*', lambda: I('Rec', 'CRec')), ('enum', lambda: I('En', 'CEn', byref=0)),
           ('arr4', lambda: Arr(B('guint8'), fixed_size=4, zero_terminated=False)),
           ('list', lambda: Lst('GLib.List', B('utf8')))]
    if tier == 'thorough':
        out += [('gdouble', lambda: B('gdouble')), ('gint8', lambda: B('gint8')), ('obj*', lambda: I('Obj', 'CObj')),
                ('hash', lambda: Hash(B('utf8'), B('utf8')))]
    return out


def gen_records(tier):
    k = 0
    # field flags x type
    for (tn, tf), readable, writable, bits, private in itertools.product(field_types(tier), (1, 0), (0, 1), (None, 3), (0, 1)):
        if bits and tn not in ('gint',):
            continue
        yield ('rec-field:%s:r%d:w%d:b%s:p%d' % (tn, readable, writable, bits, private),
               RecordN('R%d' % k, [FieldN('f', tf(), bool(readable), bool(writable), bits, bool(private))]))
        k += 1
    # record-level flags
    for gtype, gstruct, foreign, disguised, opaque, copyfree, dep, union in itertools.product(
            (0, 1), (0, 1), (0, 1), (0, 1), (0, 1), (0, 1), (0, 1), (0, 1)):
        if union and (gstruct or foreign or disguised or opaque):
            continue
        if tier != 'thorough' and gtype + gstruct + foreign + disguised + opaque + copyfree + dep > 3:
            continue
        fields = [] if (opaque or disguised) else [FieldN('a', B('gint')), FieldN('b', B('utf8'), writable=True)]
        yield ('rec-flags:%d%d%d%d%d%d%d%d' % (gtype, gstruct, foreign, disguised, opaque, copyfree, dep, union),
               RecordN('R%d' % k, fields, gtype=('CR%d' % k, 'c_r%d_get_type' % k) if gtype else None,
                       is_gtype_struct_for='Obj' if gstruct else None, foreign=bool(foreign), disguised=bool(disguised),
                       opaque=bool(opaque), copy_func='c_r%d_copy' % k if copyfree else None,
                       free_func='c_r%d_free' % k if copyfree else None, deprecated=bool(dep), union=bool(union)))
        k += 1
    # embedded callback fields, methods/constructors, attributes
    cb = lambda: CallbackT('slot', Ret(B('gint')), [Param('self', I('Rec', 'CRec')), Param('x', B('gint'))])
    for nf_before, nf_after, nmeth in itertools.product((0, 1), (0, 1, 2), (0, 1, 2)):
        fields = [FieldN('b%d' % i, B('gint')) for i in range(nf_before)]
        fields.append(FieldN('slot', callback=cb()))
        fields += [FieldN('a%d' % i, B('gint64')) for i in range(nf_after)]
        meths = []
        if nmeth >= 1:
            meths.append(Method('m1', Ret(B('gint')), [], instance=(I('R%d' % k, 'CR%d' % k), 'none'), symbol='c_r%d_m1' % k))
        if nmeth >= 2:
            meths.append(Constructor('new', Ret(I('R%d' % k, 'CR%d' % k), 'full'), [], symbol='c_r%d_new' % k))
        yield ('rec-cbfield:%d:%d:%d' % (nf_before, nf_after, nmeth), RecordN('R%d' % k, fields, meths))
        k += 1
    yield ('rec-hidden', RecordN('RHid', [FieldN('a', B('gint'))], introspectable=False))
    yield ('rec-hidden-field', RecordN('RHidF', [FieldN('a', B('gint')), FieldN('h', I('Nope', 'CNope'), introspectable=False),
                                                 FieldN('z', B('gint'))]))
    yield ('rec-attrs', RecordN('RAttr', [FieldN('a', B('gint'), attributes=[('fa', 'fv')])], attributes=[('ra', 'rv')]))
    yield ('rec-Rec', RecordN('Rec', [FieldN('x', B('gint'), writable=True)], ctype='CRec'))
    yield ('alias', AliasN('MyInt', B('gint')))
    yield ('alias-use', Function('use_alias', Ret(AliasUse('MyInt', B('gint'))), [Param('a', AliasUse('MyInt', B('gint')), direction='out', transfer='full')]))


def gen_classes(tier):
    k = 0
    yield ('class-Obj', ClassN('Obj', parent='GObject.Object', type_struct='ObjClass',
                               fields=[FieldN('parent_instance', I('GObject.Object', 'GObject', byref=0))]))
    yield ('class-ObjClass', RecordN('ObjClass', [FieldN('parent_class', I('GObject.ObjectClass', 'GObjectClass', byref=0))],
                                     is_gtype_struct_for='Obj'))
    yield ('iface-IfA', ClassN('IfA', interface=True, prerequisites=['GObject.Object']))
    yield ('iface-IfB', ClassN('IfB', interface=True))
    yield ('iface-IfC', ClassN('IfC', interface=True, prerequisites=['IfA', 'IfB']))
    # class flags
    for abstract, final, fundamental, dep, funcs in itertools.product((0, 1), (0, 1), (0, 1), (0, 1), (0, 1)):
        yield ('class-flags:%d%d%d%d%d' % (abstract, final, fundamental, dep, funcs),
               ClassN('C%d' % k, parent=None if fundamental else 'Obj', abstract=bool(abstract), final=bool(final),
                      fundamental=bool(fundamental), deprecated=bool(dep),
                      ref_func='c_ref' if funcs else None, unref_func='c_unref' if funcs else None,
                      set_value_func='c_set' if funcs else None, get_value_func='c_get' if funcs else None))
        k += 1
    # every subset of the four fundamental-type functions (each accessor must be guarded by its own field)
    for mask in range(16):
        fundamental = 1
        yield ('class-fundfuncs:%02d' % mask,
               ClassN('CF%d' % mask, parent=None, fundamental=True,
                      ref_func='c_ref%d' % mask if mask & 1 else None, unref_func='c_unref%d' % mask if mask & 2 else None,
                      set_value_func='c_set%d' % mask if mask & 4 else None, get_value_func='c_get%d' % mask if mask & 8 else None))
    # properties: all flag combos x transfer x accessor presence
    props = []
    meths = [Method('get_p', Ret(B('gint')), [], instance=(I('CP', 'CCP'), 'none'), symbol='c_cp_get_p'),
             Method('set_p', Ret(), [Param('v', B('gint'))], instance=(I('CP', 'CCP'), 'none'), symbol='c_cp_set_p'),
             Method('aaa', Ret(), [], instance=(I('CP', 'CCP'), 'none'), symbol='c_cp_aaa'),
             Method('zzz', Ret(), [], instance=(I('CP', 'CCP'), 'none'), symbol='c_cp_zzz')]
    j = 0
    for r, w, c, co, transfer, acc, dep in itertools.product((1, 0), (0, 1), (0, 1), (0, 1), ('none', 'container', 'full'),
                                                            (0, 1, 2, 3), (0, 1)):
        if tier != 'thorough' and (dep and (c or co)):
            continue
        props.append(Prop('p%d' % j, B('gint') if transfer == 'none' else Lst('GLib.List', B('utf8')),
                          bool(r), bool(w), bool(c), bool(co), transfer,
                          setter='set_p' if acc & 1 else None, getter='get_p' if acc & 2 else None,
                          deprecated=bool(dep)))
        j += 1
    yield ('class-props', ClassN('CP', parent='Obj', properties=props, methods=meths))
    # accessor methods pointing back at properties
    yield ('class-accessors', ClassN('CA', parent='Obj',
                                     properties=[Prop('alpha', B('gint'), writable=True, setter='set_alpha', getter='get_alpha'),
                                                 Prop('beta', B('utf8'))],
                                     methods=[Method('get_alpha', Ret(B('gint')), [], instance=(I('CA', 'CCA'), 'none'),
                                                     symbol='c_ca_get_alpha', get_property='alpha'),
                                              Method('set_alpha', Ret(), [Param('v', B('gint'))], instance=(I('CA', 'CCA'), 'none'),
                                                     symbol='c_ca_set_alpha', set_property='alpha'),
                                              Method('get_beta', Ret(B('utf8')), [], instance=(I('CA', 'CCA'), 'none'),
                                                     symbol='c_ca_get_beta', get_property='beta')]))
    # signals: when x flags
    sigs = []
    j = 0
    for when, nr, det, act, nh, dep in itertools.product((None, 'first', 'last', 'cleanup'), (0, 1), (0, 1), (0, 1), (0, 1), (0, 1)):
        sigs.append(Signal('s%d' % j, Ret(B('gboolean') if j % 2 else B('none')),
                           [Param('a', B('gint')), Param('o', I('Obj', 'CObj'))][: j % 3],
                           when=when, no_recurse=nr, detailed=det, action=act, no_hooks=nh, deprecated=bool(dep)))
        j += 1
    yield ('class-signals', ClassN('CS', parent='Obj', signals=sigs))
    # vfuncs: invoker / offset / throws / override
    vf = []
    j = 0
    ms = [Method('inv_a', Ret(), [], instance=(I('CV', 'CCV'), 'none'), symbol='c_cv_inv_a'),
          Method('inv_b', Ret(), [], instance=(I('CV', 'CCV'), 'none'), symbol='c_cv_inv_b', throws=True)]
    for inv, off, throws, mcu, ov in itertools.product((None, 'inv_a', 'inv_b'), (None, 16, 136), (0, 1), (0, 1),
                                                      (None, 'always', 'never')):
        vf.append(VFunc('v%d' % j, Ret(), [Param('x', B('gint'))], instance=(I('CV', 'CCV'), 'none'),
                        invoker=inv, offset=off, throws=bool(throws), must_chain_up=mcu, override=ov))
        j += 1
    yield ('class-vfuncs', ClassN('CV', parent='Obj', vfuncs=vf, methods=ms))
    # section presence combinations: interfaces 0..3 x fields {0,1,cb} x props x methods x signals x vfuncs x consts
    for ni, nf, np_, nm, ns, nv, nc in itertools.product((0, 1, 2, 3), (0, 1, 2), (0, 2), (0, 2), (0, 2), (0, 2), (0, 1)):
        if tier != 'thorough' and (ni in (2,) or (nf == 2 and np_ and ns and nv)):
            continue
        name = 'X%d' % k
        inst = (I(name, 'C' + name), 'none')
        fields = []
        if nf >= 1:
            fields.append(FieldN('fa', B('gint')))
        if nf >= 2:
            fields.append(FieldN('fcb', callback=CallbackT('fcb', Ret(), [Param('o', I(name, 'C' + name))])))
            fields.append(FieldN('fz', B('gint64')))
        yield ('class-sections:%d%d%d%d%d%d%d' % (ni, nf, np_, nm, ns, nv, nc),
               ClassN(name, parent='Obj', implements=['IfA', 'IfB', 'IfC'][:ni], fields=fields,
                      properties=[Prop('pa', B('gint')), Prop('pb', B('utf8'), writable=True)][:np_],
                      methods=[Method('ma', Ret(), [], instance=inst, symbol='c_%s_ma' % name.lower()),
                               Method('mb', Ret(B('gint')), [], instance=inst, symbol='c_%s_mb' % name.lower())][:nm],
                      signals=[Signal('sa', Ret(), []), Signal('sb', Ret(), [Param('x', B('gint'))])][:ns],
                      vfuncs=[VFunc('va', Ret(), [], instance=inst), VFunc('vb', Ret(), [], instance=inst, offset=24)][:nv],
                      constants=[ConstN('KA', B('gint'), '5')][:nc]))
        k += 1
    # interfaces with sections
    for npre, np_, nm, ns, nv, nc in itertools.product((0, 1, 2), (0, 2), (0, 2), (0, 2), (0, 2), (0, 1)):
        name = 'Y%d' % k
        inst = (I(name, 'C' + name), 'none')
        yield ('iface-sections:%d%d%d%d%d%d' % (npre, np_, nm, ns, nv, nc),
               ClassN(name, interface=True, prerequisites=['GObject.Object', 'IfA'][:npre],
                      properties=[Prop('pa', B('gint')), Prop('pb', B('utf8'), writable=True)][:np_],
                      methods=[Method('ma', Ret(), [], instance=inst, symbol='c_%s_ma' % name.lower()),
                               Method('mb', Ret(B('gint')), [], instance=inst, symbol='c_%s_mb' % name.lower())][:nm],
                      signals=[Signal('sa', Ret(), []), Signal('sb', Ret(), [Param('x', B('gint'))])][:ns],
                      vfuncs=[VFunc('va', Ret(), [], instance=inst), VFunc('vb', Ret(), [], instance=inst, offset=24)][:nv],
                      constants=[ConstN('KA', B('gint'), '5')][:nc]))
        k += 1
    yield ('class-hidden', ClassN('CHid', parent='Obj', introspectable=False))
    yield ('class-hidden-members', ClassN('CHM', parent='Obj',
                                          methods=[Method('vis', Ret(), [], instance=(I('CHM', 'CCHM'), 'none'), symbol='c_chm_vis'),
                                                   Method('hid', Ret(), [], instance=(I('CHM', 'CCHM'), 'none'), symbol='c_chm_hid',
                                                          introspectable=False)],
                                          properties=[Prop('hp', B('gint'), introspectable=False), Prop('vp', B('gint'))],
                                          signals=[Signal('hs', Ret(), [], introspectable=False)],
                                          vfuncs=[VFunc('hv', Ret(), [], instance=(I('CHM', 'CCHM'), 'none'), introspectable=False)]))
    yield ('class-attrs', ClassN('CAttr', parent='Obj', attributes=[('ca', 'cv')],
                                 properties=[Prop('p', B('gint'), attributes=[('pa', 'pv')])],
                                 signals=[Signal('s', Ret(), [], attributes=[('sa', 'sv')])],
                                 methods=[Method('m', Ret(), [], instance=(I('CAttr', 'CCAttr'), 'none'), symbol='c_cattr_m',
                                                 attributes=[('ma', 'mv')])]))


def gen_attr_everywhere(tier):
    """<attribute> children on every node kind at once, several per node, so that the offset-sorted attribute table has
    to interleave fixed-area blobs (members) and variable-area blobs (signatures, arguments) of one container."""
    def A(tag, n=2):
        return [('%s.k%d' % (tag, i), '%s v%d <&>' % (tag, i)) for i in range(n)]
    inst = lambda n: (I(n, 'C' + n), 'none')
    for variant in range(3 if tier == 'thorough' else 2):
        name = 'AE%d' % variant
        nattr = 1 + variant
        meths = [Method('m%d' % j, Ret(B('gint'), attributes=A('m%d.ret' % j, nattr)),
                        [Param('p%d' % k, B('utf8'), attributes=A('m%d.p%d' % (j, k), nattr)) for k in range(2)],
                        instance=inst(name), symbol='c_%s_m%d' % (name.lower(), j), attributes=A('m%d' % j, nattr))
                 for j in range(3)]
        sigs = [Signal('s%d' % j, Ret(B('none'), attributes=A('s%d.ret' % j, 1)),
                       [Param('a', B('gint'), attributes=A('s%d.a' % j, nattr))], attributes=A('s%d' % j, nattr)) for j in range(2)]
        vfs = [VFunc('v%d' % j, Ret(B('none')), [Param('a', B('gint'), attributes=A('v%d.a' % j, nattr))], instance=inst(name),
                     attributes=A('v%d' % j, nattr)) for j in range(2)]
        yield ('attr-everywhere-class-%d' % variant,
               ClassN(name, parent='Obj', attributes=A('cls', nattr),
                      fields=[FieldN('f0', B('gint'), attributes=A('f0', nattr)),
                              FieldN('fcb', callback=CallbackT('fcb', Ret(), [Param('x', B('gint'), attributes=A('fcb.x', 1))])),
                              FieldN('f1', B('utf8'), attributes=A('f1', nattr))],
                      properties=[Prop('pa', B('gint'), attributes=A('pa', nattr)), Prop('pb', B('utf8'), attributes=A('pb', nattr))],
                      methods=meths, signals=sigs, vfuncs=vfs,
                      constants=[ConstN('KC', B('gint'), '1', attributes=A('kc', nattr))]))
        rname = 'RAE%d' % variant
        yield ('attr-everywhere-record-%d' % variant,
               RecordN(rname, [FieldN('a', B('gint'), attributes=A('a', nattr)), FieldN('b', B('gint'), attributes=A('b', nattr))],
                       [Method('m%d' % j, Ret(B('gint'), attributes=A('rm%d.ret' % j, nattr)),
                               [Param('p', B('gint'), attributes=A('rm%d.p' % j, nattr))], instance=(I(rname, 'C' + rname), 'none'),
                               symbol='c_%s_m%d' % (rname.lower(), j), attributes=A('rm%d' % j, nattr)) for j in range(3)],
                       attributes=A('rec', nattr)))
        yield ('attr-everywhere-fn-%d' % variant,
               Function('fae%d' % variant, Ret(B('utf8'), attributes=A('ret', nattr)),
                        [Param('a', B('gint'), attributes=A('a', nattr)), Param('b', B('gint')),
                         Param('c', B('gint'), attributes=A('c', nattr))], attributes=A('fn', nattr)))
        yield ('attr-everywhere-cb-%d' % variant,
               CallbackT('CbAE%d' % variant, Ret(B('gint'), attributes=A('ret', nattr)),
                         [Param('a', B('gint'), attributes=A('a', nattr))], ctype='CCbAE%d' % variant, attributes=A('cb', nattr)))
        yield ('attr-everywhere-enum-%d' % variant,
               EnumN('EAE%d' % variant, [Member('a', 0), Member('b', 1)], attributes=A('en', nattr),
                     functions=[Function('q', Ret(B('guint32'), attributes=A('q.ret', nattr)), symbol='c_eae%d_q' % variant,
                                         attributes=A('q', nattr))]))


def gen_same_type_everywhere(tier):
    """Each type usage in every position of ONE namespace at once (field, in, out, return, property): exercises the
    compiler's de-duplication of type blobs across positions (an embedded fixed-size array field and a by-reference
    parameter array of the same shape must not share one blob)."""
    k = 0
    for label, tf in types_menu(tier):
        if 'len=' in label and 'len=None' not in label:
            continue
        if label in ('err',):
            continue
        name = 'ST%d' % k
        yield ('same-type:' + label,
               ClassN(name, parent='Obj',
                      fields=[FieldN('f', tf())],
                      properties=[Prop('p', tf())],
                      methods=[Method('get', Ret(tf(), 'none'), [], instance=(I(name, 'C' + name), 'none'), symbol='c_%s_get' % name.lower()),
                               Method('set', Ret(), [Param('v', tf())], instance=(I(name, 'C' + name), 'none'), symbol='c_%s_set' % name.lower()),
                               Method('out', Ret(), [Param('v', tf(), direction='out', transfer='full')],
                                      instance=(I(name, 'C' + name), 'none'), symbol='c_%s_out' % name.lower())]))
        k += 1


def gen_return_flags(tier):
    """Return-value flags on every callable kind other than plain functions (those are in gen_functions)."""
    k = 0
    sigs, vfs, meths = [], [], []
    for transfer, nullable, skip in itertools.product(('none', 'container', 'full'), (0, 1), (0, 1)):
        ty = lambda: (Lst('GLib.List', B('utf8')) if transfer == 'container' else B('utf8'))
        yield ('cb-ret-flags-%d' % k, CallbackT('CbR%d' % k, Ret(ty(), transfer, bool(nullable), bool(skip)),
                                                [Param('a', B('gint'))], ctype='CCbR%d' % k))
        sigs.append(Signal('sr%d' % k, Ret(ty(), transfer, bool(nullable), bool(skip)), [Param('a', B('gint'))]))
        vfs.append(VFunc('vr%d' % k, Ret(ty(), transfer, bool(nullable), bool(skip)), [Param('a', B('gint'))],
                         instance=(I('CRF', 'CCRF'), 'none')))
        meths.append(Method('mr%d' % k, Ret(ty(), transfer, bool(nullable), bool(skip)), [Param('a', B('gint'))],
                            instance=(I('CRF', 'CCRF'), 'full' if k % 2 else 'none'), symbol='c_crf_mr%d' % k))
        k += 1
    yield ('class-ret-flags', ClassN('CRF', parent='Obj', signals=sigs, vfuncs=vfs, methods=meths,
                                     fields=[FieldN('fcb%d' % i, callback=CallbackT('fcb%d' % i, Ret(B('utf8'), t, bool(n), bool(sk)),
                                                                                    [Param('a', B('gint'))]))
                                             for i, (t, n, sk) in enumerate(itertools.product(('none', 'full'), (0, 1), (0, 1)))]))


def gen_attr_table_edges(tier):
    """Documents (compiled alone: key prefix 'solo:') whose attribute table has exactly n+m entries: n on the
    lowest-offset attributed node and m on a later one.  g_base_info_get_attribute() finds a node's attributes by
    bsearch over the offset-sorted table and then walks back to the first entry of that node, so the first and last
    table entries and every table size are the edge cases."""
    rng = range(1, 7) if tier == 'thorough' else range(1, 5)
    for n in rng:
        for m in (0, 1, 2, 3):
            ents = [Function('first_%d_%d' % (n, m), Ret(), [], attributes=[('a%d' % i, 'v%d' % i) for i in range(n)])]
            if m:
                ents.append(Function('second_%d_%d' % (n, m), Ret(), [], attributes=[('b%d' % i, 'w%d' % i) for i in range(m)]))
            yield ('solo:attr-table:%d+%d' % (n, m), ents)
    for n in rng:
        # first attributed node is a nested node (parameter), last one the return value of the last function
        yield ('solo:attr-table-nested:%d' % n,
               [Function('fa', Ret(), [Param('p', B('gint'), attributes=[('a%d' % i, 'v%d' % i) for i in range(n)])]),
                Function('fz', Ret(B('gint'), attributes=[('z%d' % i, 'v%d' % i) for i in range(n)]), [])])


def gen_name_clash(tier):
    """Local entries that carry the same short name as a foreign type referenced from the same namespace: a qualified
    reference (GObject.Object, GLib.DestroyNotify, GLib.SeekType) must still resolve to the foreign entry, an unqualified
    one to the local entry.  Compiled alone ('solo:') so that the directory contains exactly these names."""
    ents = [
        ClassN('Object', parent='GObject.Object', gtype=('CObject', 'c_object_get_type'),
               fields=[FieldN('parent_instance', I('GObject.Object', 'GObject', byref=0))],
               methods=[Method('peer', Ret(I('Object', 'CObject'), 'none'), [Param('o', I('GObject.Object', 'GObject'))],
                               instance=(I('Object', 'CObject'), 'none'), symbol='c_object_peer')]),
        CallbackT('DestroyNotify', Ret(), [Param('x', B('gint'))], ctype='CDestroyNotify'),
        EnumN('SeekType', [Member('here', 0), Member('there', 5)]),
        RecordN('Error', [FieldN('code', B('gint'))], ctype='CError'),
        Function('use_all', Ret(I('GLib.SeekType', 'GSeekType', byref=0)),
                 [Param('a', I('DestroyNotify', 'CDestroyNotify', byref=0), scope='call'),
                  Param('b', I('GLib.DestroyNotify', 'GDestroyNotify', byref=0), scope='call'),
                  Param('c', I('SeekType', 'CSeekType', byref=0)),
                  Param('d', I('Error', 'CError')),
                  Param('e', I('GObject.Object', 'GObject')),
                  Param('f', I('Object', 'CObject'))]),
        ClassN('Derived', parent='Object', gtype=('CDerived', 'c_derived_get_type'), implements=[],
               properties=[Prop('local', I('Object', 'CObject')), Prop('foreign', I('GObject.Object', 'GObject'))]),
    ]
    yield ('solo:name-clash', ents)


def gen_alias_chains(tier):
    """<alias> whose target is another <alias> (Stamp -> Ticks -> gint32): every use of every link of the chain must be
    stored as the final target.  Chains of depth 1..3 (4 in thorough) over each kind of final target, declared
    innermost-first and outermost-first, each link used as parameter (in, out), return value, record field and constant.
    Compiled alone ('solo:'): a namespace without foreign references must have no non-local directory entries."""
    finals = [('gint32', lambda: B('gint32'), '7'), ('utf8', lambda: B('utf8'), 'seven'),
              ('rec', lambda: I('Rec', 'CRec'), None), ('enum', lambda: I('En', 'CEn', byref=0), None),
              ('foreign', lambda: I('GObject.Object', 'GObject'), None)]     # an <alias> holds a <type>, never an <array>
    for (fname, final, cval), depth, order in itertools.product(finals, (1, 2, 3, 4) if tier == 'thorough' else (1, 2, 3),
                                                                 ('inner-first', 'outer-first')):
        names = ['Al%d' % j for j in range(depth)]
        aliases = []
        for j, n in enumerate(names):
            aliases.append(AliasN(n, final() if j == 0 else AliasUse(names[j - 1], final())))
        if order == 'outer-first':
            aliases.reverse()
        ents = [EnumN('En', [Member('x', 0), Member('y', 1)]), RecordN('Rec', [FieldN('x', B('gint'), writable=True)], ctype='CRec')]
        ents += aliases
        fields = []
        for j, n in enumerate(names):
            ents.append(Function('use_%d' % j, Ret(AliasUse(n, final()), 'none'),
                                 [Param('a', AliasUse(n, final())),
                                  Param('o', AliasUse(n, final()), direction='out', transfer='full')]))
            ents.append(CallbackT('Cb%d' % j, Ret(AliasUse(n, final()), 'none'), [Param('a', AliasUse(n, final()))]))
            fields.append(FieldN('f%d' % j, AliasUse(n, final())))
            if cval is not None:
                ents.append(ConstN('K%d' % j, AliasUse(n, final()), cval))
        if fields:
            ents.append(RecordN('Holder', fields))
        yield ('solo:alias-chain:%s:%d:%s' % (fname, depth, order), ents)


def gen_dependency_sets(tier):
    """Whole documents ('solo:' + Doc) over every ordered selection of up to 3 <include>s from a menu containing
    namespaces whose names are prefix-related to the compiled one (Test includes TestBase-1.0, Testing-2.0, Te-1.0 — as
    Gdk includes GdkPixbuf): Header.dependencies must list exactly the includes, and a reference into each included
    namespace must be stored as a cross-reference to it."""
    from vt.girgen import Doc
    # Base-1.0 is a substring (suffix) of TestBase-1.0: a dependency list handled as text must not confuse them
    menu = [('GLib', '2.0'), ('GObject', '2.0'), ('TestBase', '1.0'), ('Testing', '2.0'), ('Te', '1.0'), ('Other', '3.0'),
            ('Base', '1.0')]
    sels = [()]
    for r in (1, 2, 3):
        sels += list(itertools.permutations(menu, r)) if (tier == 'thorough' or r < 3) else \
            [p for p in itertools.permutations(menu, r) if sum(1 for n, v in p if n.startswith('Te') or n == 'Base') >= 2]
    for sel in sels:
        params = []
        for n, v in sel:
            if n in ('GLib', 'GObject'):
                continue
            params.append(Param('p_%s' % n.lower(), I('%s.Clock' % n, '%sClock' % n)))
            params.append(Param('m_%s' % n.lower(), I('%s.Mode' % n, '%sMode' % n, byref=0)))
        ents = [Function('use_deps', Ret(), params), RecordN('Rec', [FieldN('x', B('gint'), writable=True)], ctype='CRec')]
        for use_ref in ((False, True) if any(n not in ('GLib', 'GObject') for n, v in sel) else (True,)):
            # with and without any reference into the included namespaces
            yield ('solo:deps:%s:%s' % ('+'.join('%s-%s' % nv for nv in sel) or 'none', 'refs' if use_ref else 'norefs'),
                   Doc('Test', '1.0', ents if use_ref else ents[1:], includes=list(sel), shared_library='libtest.so.0',
                       c_prefix='C', symbol_prefix='c'))


def gen_callable_flags_x_attrs(tier):
    """Every callable kind in every container kind that may hold it (function at top level / in an enumeration / in a
    bitfield / static in a record, union, class and interface; method and constructor of record, union, class; callback;
    virtual function) crossed with throws x deprecated x 0..2 free-form <attribute> children: writers and readers that
    handle the start tag's own attributes and the <attribute> children in separate steps must not lose either."""
    k = 0
    combos = list(itertools.product((0, 1), (0, 1), (0, 1, 2)))
    for throws, dep, nattr in combos:
        def kw(tag):
            return dict(throws=bool(throws), deprecated=bool(dep), attributes=[('%s.a%d' % (tag, i), 'v%d' % i) for i in range(nattr)])
        sfx = '%d%d%d' % (throws, dep, nattr)
        fns = lambda owner: [Function('sf', Ret(B('gint')), [Param('a', B('gint'))], symbol='c_%s_sf' % owner.lower(), **kw('sf'))]
        yield ('cfa-function:' + sfx, Function('cfa_%s' % sfx, Ret(B('utf8'), 'full'), [Param('a', B('gint'))], **kw('fn')))
        yield ('cfa-callback:' + sfx, CallbackT('CfaCb%s' % sfx, Ret(B('gint')), [Param('a', B('gint'))], ctype='CCfaCb%s' % sfx, **kw('cb')))
        yield ('cfa-enum:' + sfx, EnumN('CfaE%s' % sfx, [Member('a', 0), Member('b', 1)], functions=fns('CfaE' + sfx)))
        yield ('cfa-flags:' + sfx, EnumN('CfaF%s' % sfx, [Member('a', 1), Member('b', 2)], flags=True, functions=fns('CfaF' + sfx)))
        yield ('cfa-flags-gtype:' + sfx, EnumN('CfaG%s' % sfx, [Member('a', 1), Member('b', 2)], flags=True,
                                               gtype=('CCfaG%s' % sfx, 'c_cfag%s_get_type' % sfx), functions=fns('CfaG' + sfx)))
        for union in (False, True):
            n = 'Cfa%s%s' % ('U' if union else 'R', sfx)
            meths = [Method('m', Ret(B('gint')), [Param('a', B('gint'))], instance=(I(n, 'C' + n), 'none'), symbol='c_%s_m' % n.lower(), **kw('m')),
                     Constructor('new', Ret(I(n, 'C' + n), 'full'), [], symbol='c_%s_new' % n.lower(), **kw('new'))] + fns(n)
            yield ('cfa-%s:%s' % ('union' if union else 'record', sfx), RecordN(n, [FieldN('x', B('gint'))], meths, union=union))
        n = 'CfaC%s' % sfx
        yield ('cfa-class:' + sfx,
               ClassN(n, parent='Obj',
                      methods=[Method('m', Ret(B('gint')), [Param('a', B('gint'))], instance=(I(n, 'C' + n), 'none'), symbol='c_%s_m' % n.lower(), **kw('m')),
                               Constructor('new', Ret(I(n, 'C' + n), 'full'), [], symbol='c_%s_new' % n.lower(), **kw('new'))] + fns(n),
                      vfuncs=[VFunc('v', Ret(B('gint')), [Param('a', B('gint'))], instance=(I(n, 'C' + n), 'none'),
                                    throws=bool(throws), attributes=[('v.a%d' % i, 'v%d' % i) for i in range(nattr)])]))
        k += 1


def gen_shadow_pairs(tier):
    """A (rename-to) pair - `x` shadowed-by `x_full`, `x_full` shadows `x` - for every callable kind in every host:
    only the shadowing callable is compiled, under the shadowed name."""
    def pair(cls, host, x='x', **kw):
        a = cls(x, Ret(B('gint')) if cls is not Constructor else Ret(I(host, 'C' + host), 'full'), [Param('a', B('gint'))],
                symbol='c_%s_%s' % (host.lower(), x), shadowed_by=x + '_full', **kw)
        b = cls(x + '_full', Ret(B('gint')) if cls is not Constructor else Ret(I(host, 'C' + host), 'full'),
                [Param('a', B('gint')), Param('b', B('utf8'))], symbol='c_%s_%s_full' % (host.lower(), x), shadows=x, **kw)
        return [a, b]
    yield ('shadow-pair:function', pair(Function, 'Top'))
    for union in (False, True):
        n = 'ShU' if union else 'ShR'
        inst = dict(instance=(I(n, 'C' + n), 'none'))
        yield ('shadow-pair:%s' % ('union' if union else 'record'),
               RecordN(n, [FieldN('v', B('gint'))], pair(Method, n, **inst) + pair(Function, n, 'y'), union=union))
        yield ('shadow-pair:%s-ctor' % ('union' if union else 'record'),
               RecordN(n + 'K', [FieldN('v', B('gint'))], pair(Constructor, n + 'K'), union=union))
    yield ('shadow-pair:class', ClassN('ShC', parent='Obj', methods=pair(Method, 'ShC', instance=(I('ShC', 'CShC'), 'none')) + pair(Function, 'ShC', 'y')))
    yield ('shadow-pair:class-ctor', ClassN('ShCK', parent='Obj', methods=pair(Constructor, 'ShCK')))
    yield ('shadow-pair:iface', ClassN('ShI', interface=True, methods=pair(Method, 'ShI', instance=(I('ShI', 'CShI'), 'none'))))
    yield ('shadow-pair:enum', EnumN('ShE', [Member('a', 0)], functions=pair(Function, 'ShE')))


class _IPtrRec(I):
    """Reference to a record that IS a pointer typedef / disguised: the bare C name is a pointer."""

    def expect(self, out=False):
        e = I.expect(self, out)
        e['pointer'] = 1
        return e


def gen_pointer_record_refs(tier):
    """Records that are pointer typedefs (pointer="1") or disguised, referenced by name BEFORE and AFTER their own
    element in the document (parameter, return value, field, method of another record)."""
    for flagname in ('pointer', 'disguised'):
        for order in ('before', 'after', 'both'):
            def users(sfx):
                return [Function('use_%s' % sfx, Ret(_IPtrRec('Handle', 'CHandle', byref=0), 'none'), [Param('h', _IPtrRec('Handle', 'CHandle', byref=0))]),
                        RecordN('Holder%s' % sfx.capitalize(), [FieldN('h', _IPtrRec('Handle', 'CHandle', byref=0)), FieldN('n', B('gint'))])]
            handle = RecordN('Handle', [], **{flagname: True})
            ents = (users('a') if order in ('before', 'both') else []) + [handle] + (users('z') if order in ('after', 'both') else [])
            yield ('solo:ptr-record:%s:%s' % (flagname, order), ents)


ALL_GENS = [gen_callbacks, gen_enums, gen_records, gen_classes, gen_functions, gen_type_positions, gen_constants,
            gen_attr_everywhere, gen_same_type_everywhere, gen_return_flags,
            gen_attr_table_edges, gen_name_clash, gen_alias_chains, gen_dependency_sets, gen_callable_flags_x_attrs, gen_shadow_pairs, gen_pointer_record_refs]

# entries every batch needs because other entries refer to them by name
SUPPORT = ('cb-basic', 'enum-En', 'rec-Rec', 'class-Obj', 'class-ObjClass', 'iface-IfA', 'iface-IfB', 'iface-IfC', 'alias')


def all_entries(tier):
    out = []
    seen = set()
    for g in ALL_GENS:
        for key, e in g(tier):
            assert key not in seen, key
            seen.add(key)
            out.append((key, e))
    return out
