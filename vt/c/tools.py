"""Helpers to run the rebuilt g-ir-compiler / g-ir-generate / drivers."""
import os
import shutil
import subprocess

from vt.core import ROOT

DEPS = os.path.join(ROOT, 'deps')
DEPS_C06 = os.path.join(DEPS, 'c06')      # namespaces whose names are prefix-related to 'Test'
TMP = os.path.join(ROOT, '.build', 'tmp')


def workdir(tag):
    d = os.path.join(TMP, '%s-%d' % (tag, os.getpid()))
    os.makedirs(d, exist_ok=True)
    return d


def cleanup(d):
    shutil.rmtree(d, ignore_errors=True)


def compile_gir(build, xml_text, wd, name='Test-1.0', includedirs=(), extra=()):
    """-> (returncode, stderr_text, typelib_bytes or None).  The GIR is written to wd/<name>.gir"""
    gir = os.path.join(wd, name + '.gir')
    out = os.path.join(wd, name + '.typelib')
    with open(gir, 'w', encoding='utf-8') as f:
        f.write(xml_text)
    try:
        os.unlink(out)
    except FileNotFoundError:
        pass
    cmd = [build.compiler]
    for d in list(includedirs) + [DEPS, DEPS_C06]:
        cmd += ['--includedir', d]
    cmd += list(extra) + [gir, '-o', out]
    p = subprocess.run(cmd, stdout=subprocess.PIPE, stderr=subprocess.PIPE, env=build.env(), cwd=wd)
    data = None
    if p.returncode == 0 and os.path.exists(out):
        with open(out, 'rb') as f:
            data = f.read()
    return p.returncode, (p.stdout + p.stderr).decode('utf-8', 'replace'), data


def compile_file(build, gir_path, out_path, includedirs=()):
    cmd = [build.compiler]
    for d in list(includedirs) + [DEPS]:
        cmd += ['--includedir', d]
    cmd += [gir_path, '-o', out_path]
    p = subprocess.run(cmd, stdout=subprocess.PIPE, stderr=subprocess.PIPE, env=build.env())
    return p.returncode, (p.stdout + p.stderr).decode('utf-8', 'replace')


def ensure_dep_typelibs(build):
    """Compile deps/*.gir into <builddir>/typelibs once per build; returns that directory."""
    d = os.path.join(build.dir, 'typelibs')
    import hashlib
    h = hashlib.sha1()
    for dd in (DEPS, DEPS_C06):
        for f in sorted(os.listdir(dd)):
            if f.endswith('.gir'):
                with open(os.path.join(dd, f), 'rb') as fh:
                    h.update(f.encode() + b'\0' + fh.read())
    ok = os.path.join(d, 'OK-' + h.hexdigest()[:12])      # re-done whenever a dependency GIR changes
    if os.path.exists(ok):
        return d
    os.makedirs(d, exist_ok=True)
    import fcntl
    with open(os.path.join(d, '.lock'), 'w') as lk:      # several worker processes may get here at once
        fcntl.flock(lk, fcntl.LOCK_EX)
        if os.path.exists(ok):
            return d
        girs = [os.path.join(DEPS, n + '.gir') for n in ('GLib-2.0', 'GObject-2.0', 'Gio-2.0')]
        girs += sorted(os.path.join(DEPS_C06, f) for f in os.listdir(DEPS_C06) if f.endswith('.gir'))
        for g in girs:
            n = os.path.basename(g)[:-4]
            tmp = os.path.join(d, '%s.typelib.tmp%d' % (n, os.getpid()))
            rc, err = compile_file(build, g, tmp)
            if rc != 0:
                from vt.core import HarnessBroken
                raise HarnessBroken('cannot compile dependency %s: %s' % (n, err))
            os.replace(tmp, os.path.join(d, n + '.typelib'))
        open(ok, 'w').close()
    return d


def run(build, argv, input=None, timeout=120):
    p = subprocess.run(argv, stdout=subprocess.PIPE, stderr=subprocess.PIPE, env=build.env(), input=input,
                       timeout=timeout)
    return p.returncode, p.stdout, p.stderr.decode('utf-8', 'replace')
