/* drv_hash - driver for property C14 (vt/checks/c14.py).
 *
 * Executes /repo's real lookup code and prints what it returned; every comparison with the
 * reference model (set membership) happens in Python.  Strings travel hex-encoded.
 *
 *   drv_hash subsets SPEC LO HI SEEDS   in-process: for every mask in [LO,HI) and srand seed in the comma list SEEDS build the
 *                                       perfect hash of the selected names with _gi_typelib_hash_builder_*, pack
 *                                       it the way add_directory_index_section does (but with a 32-bit size),
 *                                       and run every probe through _gi_typelib_hash_search + the caller's final
 *                                       strcmp exactly as g_typelib_get_dir_entry_by_name does
 *   drv_hash full SPEC SEEDS            the same for the set of ALL names of SPEC (size ladder)
 *   drv_hash typelib JOBFILE            command interpreter over compiled typelibs (see run_typelib)
 *
 * SPEC: lines "A:<hex>" (names, in directory order) and "P:<hex>" (probes).
 */
#include <stdio.h>
#include <stdlib.h>
#include <string.h>

#include <glib.h>
#include <glib-object.h>
#include "girepository.h"
#include "girepository-private.h"
#include "gitypelib-internal.h"

#define ALIGN4(x) (((x) + 3u) & ~3u)

static void
die (const char *msg, const char *arg)
{
  fprintf (stderr, "drv_hash: %s %s\n", msg, arg ? arg : "");
  exit (3);
}

static int
hexval (int c)
{
  if (c >= '0' && c <= '9') return c - '0';
  if (c >= 'a' && c <= 'f') return c - 'a' + 10;
  return -1;
}

/* hex -> freshly malloc'ed NUL-terminated string of exactly the right size (so that ASan sees overreads) */
static char *
unhex (const char *h)
{
  size_t n = 0, i;
  char *s;
  while (hexval ((unsigned char) h[n]) >= 0)
    n++;
  if (n % 2)
    die ("odd hex string", h);
  s = malloc (n / 2 + 1);
  for (i = 0; i < n / 2; i++)
    s[i] = (char) (hexval ((unsigned char) h[2 * i]) * 16 + hexval ((unsigned char) h[2 * i + 1]));
  s[n / 2] = 0;
  return s;
}

static void
puthex (const char *s)
{
  if (!*s)
    putchar ('.');
  for (; *s; s++)
    printf ("%02x", (unsigned char) *s);
}

typedef struct { char **v; size_t n, cap; } StrVec;

static void
sv_add (StrVec *sv, char *s)
{
  if (sv->n == sv->cap)
    {
      sv->cap = sv->cap ? sv->cap * 2 : 64;
      sv->v = realloc (sv->v, sv->cap * sizeof (char *));
    }
  sv->v[sv->n++] = s;
}

static void
read_spec (const char *path, StrVec *names, StrVec *probes)
{
  FILE *f = fopen (path, "r");
  char *line = NULL;
  size_t cap = 0;
  if (!f)
    die ("cannot open", path);
  while (getline (&line, &cap, f) > 0)
    {
      if (line[0] == 'A' && line[1] == ':')
        sv_add (names, unhex (line + 2));
      else if (line[0] == 'P' && line[1] == ':')
        sv_add (probes, unhex (line + 2));
    }
  free (line);
  fclose (f);
}

/* ------------------------------------------------------------------------------------------------ in-process */

/* One key set: sel[0..n) are the selected names; the value stored for sel[i] is i (the directory index,
 * as in add_directory_index_section).  Prints one result line. */
static void
one_set (const char *tag, char **sel, guint n, StrVec *probes, unsigned seed)
{
  GITypelibHashBuilder *b;
  guint32 size, asize, dirmap;
  guint8 *mem;
  guint i;
  size_t p;
  int perm_ok = 1, fit_ok;
  guint8 *seen;
  guint32 sig = 2166136261u;   /* fingerprint of every slot returned (absent probes included) */

  /* cmph draws its hash seeds from rand(); a fresh g-ir-compiler process starts from srand(1) */
  srand (seed);
  b = _gi_typelib_hash_builder_new ();
  for (i = 0; i < n; i++)
    _gi_typelib_hash_builder_add_string (b, sel[i], (guint16) i);
  if (!_gi_typelib_hash_builder_prepare (b))
    {
      /* documented: "This happens if CMPH couldn't create a perfect hash. So we just punt" */
      printf ("S %s %u n=%u b=0\n", tag, seed, n);
      _gi_typelib_hash_builder_destroy (b);
      return;
    }
  size = _gi_typelib_hash_builder_get_buffer_size (b);
  asize = ALIGN4 (size);
  mem = malloc (asize);               /* exact size: ASan reports any write/read beyond the section */
  if ((((size_t) mem) & 3) != 0)
    die ("malloc not aligned", NULL);
  memset (mem, 0xAA, asize);
  _gi_typelib_hash_builder_pack (b, mem, asize);
  _gi_typelib_hash_builder_destroy (b);

  /* layout facts, read independently of gthash.c's search: "INDEX (array of guint16)" behind the MPH */
  dirmap = *(guint32 *) mem;
  fit_ok = dirmap >= 4 && (guint64) dirmap + 2 * (guint64) n <= asize;
  seen = calloc (n ? n : 1, 1);
  if (fit_ok)
    for (i = 0; i < n; i++)
      {
        guint16 v;
        memcpy (&v, mem + dirmap + 2 * i, 2);
        if (v >= n || seen[v])
          perm_ok = 0;
        else
          seen[v] = 1;
      }
  free (seen);

  printf ("S %s %u n=%u b=1 size=%u dm=%u fit=%d perm=%d", tag, seed, n, size, dirmap, fit_ok, fit_ok && perm_ok);
  for (p = 0; p < probes->n; p++)
    {
      const char *name = probes->v[p];
      /* --- exactly the indexed branch of g_typelib_get_dir_entry_by_name --- */
      guint16 index = _gi_typelib_hash_search (mem, name, n);
      sig = (sig ^ index) * 16777619u;
      if (index >= n)
        {
          /* g_typelib_get_dir_entry (typelib, index + 1) would address beyond the directory */
          printf (" o%zu:%u", p, (unsigned) index);
          continue;
        }
      if (strcmp (name, sel[index]) == 0)
        printf (" f%zu:%u", p, (unsigned) index);
    }
  printf (" np=%zu sig=%u\n", probes->n, (unsigned) sig);
  free (mem);
}

static unsigned
parse_seeds (const char *arg, unsigned *out, unsigned max)
{
  unsigned n = 0;
  char *end;
  while (*arg && n < max)
    {
      out[n++] = (unsigned) strtoul (arg, &end, 10);
      if (end == arg)
        die ("bad seed list", arg);
      arg = (*end == ',') ? end + 1 : end;
    }
  if (n == 0)
    die ("empty seed list", arg);
  return n;
}

static int
run_subsets (const char *spec, unsigned long lo, unsigned long hi, const char *seedarg)
{
  unsigned seeds[64], nseeds = parse_seeds (seedarg, seeds, 64);
  StrVec names = { 0 }, probes = { 0 };
  unsigned long mask;
  char **sel;
  read_spec (spec, &names, &probes);
  if (names.n > 24)
    die ("alphabet too large for subsets mode", NULL);
  sel = malloc ((names.n + 1) * sizeof (char *));
  for (mask = lo; mask < hi; mask++)
    {
      guint n = 0;
      size_t k;
      unsigned s;
      char tag[32];
      for (k = 0; k < names.n; k++)
        if (mask & (1ul << k))
          sel[n++] = names.v[k];
      snprintf (tag, sizeof tag, "%lu", mask);
      for (s = 0; s < nseeds; s++)
        one_set (tag, sel, n, &probes, seeds[s]);
    }
  return 0;
}

static int
run_full (const char *spec, const char *seedarg)
{
  StrVec names = { 0 }, probes = { 0 };
  unsigned seeds[64], nseeds = parse_seeds (seedarg, seeds, 64);
  unsigned s;
  read_spec (spec, &names, &probes);
  for (s = 0; s < nseeds; s++)
    one_set ("all", names.v, (guint) names.n, &probes, seeds[s]);
  return 0;
}

/* ------------------------------------------------------------------------------------------------ typelibs */

#define NSLOT 4

typedef struct {
  GITypelib *idx;        /* the file as compiled */
  GITypelib *lin;        /* copy whose DIRECTORY_INDEX section id is patched to GI_SECTION_END */
  char *ns;
  int has_index;
} Slot;

static Slot slots[NSLOT];
static GIRepository *repo;       /* gets slots[*].idx loaded */
static GIRepository *repo_lin;   /* gets slots[*].lin loaded */

static gpointer dummy_copy (gpointer p) { return p; }
static void dummy_free (gpointer p) { (void) p; }

static void
print_entry (GITypelib *t, DirEntry *e)
{
  Header *h = (Header *) t->data;
  size_t delta;
  if (e == NULL)
    {
      printf (" -");
      return;
    }
  delta = (size_t) ((guint8 *) e - (t->data + h->directory));
  if ((guint8 *) e < t->data + h->directory || delta % h->entry_blob_size != 0
      || delta / h->entry_blob_size >= h->n_local_entries)
    {
      printf (" BAD");
      return;
    }
  printf (" %zu,%u,%u,", delta / h->entry_blob_size + 1, (unsigned) e->blob_type, (unsigned) e->offset);
  puthex ((const char *) &t->data[e->name]);
}

/* NULL or a proper local directory entry?  (find_by_name would build an info from anything else and abort;
 * the typelib-level answer is already reported as BAD, so the repository-level call is skipped: "na") */
static int
entry_sane (GITypelib *t, DirEntry *e)
{
  Header *h = (Header *) t->data;
  size_t delta;
  if (e == NULL)
    return 1;
  if ((guint8 *) e < t->data + h->directory)
    return 0;
  delta = (size_t) ((guint8 *) e - (t->data + h->directory));
  return delta % h->entry_blob_size == 0 && delta / h->entry_blob_size < h->n_local_entries;
}

static void
print_info (GIBaseInfo *info)
{
  if (info == NULL)
    {
      printf (" -");
      return;
    }
  printf (" %d,%u,", (int) g_base_info_get_type (info), (unsigned) ((GIRealInfo *) info)->offset);
  puthex (g_base_info_get_name (info));
  putchar (',');
  puthex (g_base_info_get_namespace (info));
  g_base_info_unref (info);
}

static void
load_slot (int s, const char *ns, const char *path)
{
  gchar *buf = NULL;
  gsize len = 0;
  GError *err = NULL;
  guint8 *a, *b;
  Header *h;
  int found = 0;

  if (!g_file_get_contents (path, &buf, &len, &err))
    die ("cannot read", path);
  /* exact-size copies; the typelibs own them */
  a = g_malloc (len);
  memcpy (a, buf, len);
  b = g_malloc (len);
  memcpy (b, buf, len);
  g_free (buf);
  h = (Header *) b;
  if (len >= sizeof (Header) && h->sections != 0)
    {
      guint32 off = h->sections;
      while (off + sizeof (Section) <= len)
        {
          Section *sec = (Section *) (b + off);
          if (sec->id == GI_SECTION_END)
            break;
          if (sec->id == GI_SECTION_DIRECTORY_INDEX)
            {
              sec->id = GI_SECTION_END;
              found = 1;
              break;
            }
          off += sizeof (Section);
        }
    }
  slots[s].idx = g_typelib_new_from_memory (a, len, &err);
  if (!slots[s].idx)
    die ("g_typelib_new_from_memory failed:", err ? err->message : "?");
  slots[s].lin = g_typelib_new_from_memory (b, len, &err);
  if (!slots[s].lin)
    die ("g_typelib_new_from_memory (patched) failed:", err ? err->message : "?");
  slots[s].ns = g_strdup (ns);
  slots[s].has_index = found;
  printf ("T %d index=%d n_local=%u n=%u\n", s, found, (unsigned) ((Header *) a)->n_local_entries,
          (unsigned) ((Header *) a)->n_entries);
}

static int
slot_of (const char *arg, char **rest)
{
  long s = strtol (arg, rest, 10);
  if (s < 0 || s >= NSLOT)
    die ("bad slot", arg);
  while (**rest == ' ')
    (*rest)++;
  return (int) s;
}

/* Commands (one per line), results one line per command in the same order:
 *   R                  fresh repositories, forget all slots
 *   Y <hex>            make sure a GType named <hex> exists (registers a boxed type)      -> "Y <gtype!=0>"
 *   T <slot> <ns> <path>  read a typelib file into a slot                                  -> "T slot index= n_local= n="
 *   L <slot> [1]       g_irepository_load_typelib (both flavours; 1 = G_IREPOSITORY_LOAD_FLAG_LAZY) -> "L <hex ns returned>"
 *   N <slot> <hex>     by name: indexed, linear fallback, find_by_name on both repositories -> "N e e i i"
 *   n <slot> <hex>     by name without the linear flavours (large ladders)                 -> "n e i"
 *   G <slot> <hex>     by GType name: typelib level (both copies), find_by_gtype (both repositories; "na" when no
 *                      GType of that name was registered with Y)                           -> "G e e i i"
 *   E <slot> <hex>     by error domain: typelib level (both copies) + find_by_error_domain -> "E e e i i"
 *   P <slot> <hex>     g_typelib_matches_gtype_name_prefix                                 -> "P 0|1"
 */
static int
run_typelib (const char *jobfile)
{
  FILE *f = fopen (jobfile, "r");
  char *line = NULL;
  size_t cap = 0;
  ssize_t got;
  if (!f)
    die ("cannot open", jobfile);
  while ((got = getline (&line, &cap, f)) > 0)
    {
      char *arg, *rest;
      char cmd = line[0];
      while (got > 0 && (line[got - 1] == '\n' || line[got - 1] == '\r'))
        line[--got] = 0;
      arg = line + (line[1] == ' ' ? 2 : 1);
      switch (cmd)
        {
        case 'R':
          {
            int s;
            /* the old repositories and typelibs are intentionally leaked (infos may reference them) */
            repo = g_object_new (G_TYPE_IREPOSITORY, NULL);
            repo_lin = g_object_new (G_TYPE_IREPOSITORY, NULL);
            for (s = 0; s < NSLOT; s++)
              memset (&slots[s], 0, sizeof (Slot));
            printf ("R\n");
            break;
          }
        case 'Y':
          {
            char *name = unhex (arg);
            GType t = g_type_from_name (name);
            if (t == 0)
              t = g_boxed_type_register_static (name, dummy_copy, dummy_free);
            printf ("Y %d\n", t != 0);
            free (name);
            break;
          }
        case 'T':
          {
            int s = slot_of (arg, &rest);
            char *sp = strchr (rest, ' ');
            if (!sp)
              die ("bad T command", line);
            *sp = 0;
            load_slot (s, rest, sp + 1);
            break;
          }
        case 'L':
          {
            int s = slot_of (arg, &rest);
            GError *err = NULL;
            GIRepositoryLoadFlags fl = (*rest == '1') ? G_IREPOSITORY_LOAD_FLAG_LAZY : 0;
            const char *ns = g_irepository_load_typelib (repo, slots[s].idx, fl, &err);
            const char *ns2 = g_irepository_load_typelib (repo_lin, slots[s].lin, fl, &err);
            printf ("L ");
            puthex (ns ? ns : "?");
            putchar (' ');
            puthex (ns2 ? ns2 : "?");
            putchar ('\n');
            break;
          }
        case 'N':
        case 'n':
          {
            int s = slot_of (arg, &rest);
            char *name = unhex (rest);
            DirEntry *e1 = g_typelib_get_dir_entry_by_name (slots[s].idx, name);
            DirEntry *e2 = (cmd == 'N') ? g_typelib_get_dir_entry_by_name (slots[s].lin, name) : NULL;
            printf ("%c", cmd);
            print_entry (slots[s].idx, e1);
            if (cmd == 'N')
              print_entry (slots[s].lin, e2);
            if (entry_sane (slots[s].idx, e1))
              print_info (g_irepository_find_by_name (repo, slots[s].ns, name));
            else
              printf (" na");
            if (cmd == 'N')
              {
                if (entry_sane (slots[s].lin, e2))
                  print_info (g_irepository_find_by_name (repo_lin, slots[s].ns, name));
                else
                  printf (" na");
              }
            putchar ('\n');
            free (name);
            break;
          }
        case 'G':
          {
            int s = slot_of (arg, &rest);
            char *name = unhex (rest);
            GType t = g_type_from_name (name);
            printf ("G");
            print_entry (slots[s].idx, g_typelib_get_dir_entry_by_gtype_name (slots[s].idx, name));
            print_entry (slots[s].lin, g_typelib_get_dir_entry_by_gtype_name (slots[s].lin, name));
            if (t == 0)
              printf (" na na");
            else
              {
                print_info (g_irepository_find_by_gtype (repo, t));
                print_info (g_irepository_find_by_gtype (repo_lin, t));
              }
            putchar ('\n');
            free (name);
            break;
          }
        case 'E':
          {
            int s = slot_of (arg, &rest);
            char *name = unhex (rest);
            GQuark q = g_quark_from_string (name);
            printf ("E");
            print_entry (slots[s].idx, g_typelib_get_dir_entry_by_error_domain (slots[s].idx, q));
            print_entry (slots[s].lin, g_typelib_get_dir_entry_by_error_domain (slots[s].lin, q));
            print_info ((GIBaseInfo *) g_irepository_find_by_error_domain (repo, q));
            print_info ((GIBaseInfo *) g_irepository_find_by_error_domain (repo_lin, q));
            putchar ('\n');
            free (name);
            break;
          }
        case 'P':
          {
            int s = slot_of (arg, &rest);
            char *name = unhex (rest);
            printf ("P %d\n", g_typelib_matches_gtype_name_prefix (slots[s].idx, name) ? 1 : 0);
            free (name);
            break;
          }
        case 0:
        case '#':
          break;
        default:
          die ("unknown command", line);
        }
    }
  free (line);
  fclose (f);
  printf ("END\n");
  return 0;
}

int
main (int argc, char **argv)
{
  static char obuf[1 << 16];
  setvbuf (stdout, obuf, _IOFBF, sizeof obuf);
  if (argc == 6 && strcmp (argv[1], "subsets") == 0)
    return run_subsets (argv[2], strtoul (argv[3], NULL, 10), strtoul (argv[4], NULL, 10), argv[5]);
  if (argc == 4 && strcmp (argv[1], "full") == 0)
    return run_full (argv[2], argv[3]);
  if (argc == 3 && strcmp (argv[1], "typelib") == 0)
    return run_typelib (argv[2]);
  fprintf (stderr, "usage: drv_hash subsets SPEC LO HI SEEDS | full SPEC SEEDS | typelib JOBFILE\n");
  return 2;
}
