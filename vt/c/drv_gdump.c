/* drv_gdump - conformance driver for property C12 (vt/checks/c12.py, vt/scan/c12_conf.py).
 *
 * Registers, in a live GObject type system (system libgobject 2.74), the GTypes described by a
 * registry file, then runs /repo's REAL dumper, g_irepository_dump() from girepository/gdump.c
 * (linked from the freshly built libgirepo.a), on a functions file and copies the XML it wrote to
 * stdout.  The Python side feeds the same registry to its model of the dumper
 * (vt/scan/c12_gdump.py) and requires both documents to be equal.
 *
 *   drv_gdump REGISTRY FUNCTIONS OUT
 *
 * REGISTRY lines (blank separated; <hex> = hex-encoded UTF-8, "-" = empty):
 *   type <kind> <Name> <Parent|-> <flags>    kind: object interface boxed pointer enum flags other
 *                                             flags: letters a(bstract) f(inal) i(nstantiatable) or -
 *   value <EnumOrFlags> <VALUE_NAME> <nick> <int>
 *   prereq <Iface> <Type>          impl <Type> <Iface>
 *   prop <Owner> <name> <GTypeName> <flags> <n|v|s|z> <hex>    default: none / text / string / NULL string
 *   signal <Owner> <name> <ReturnGType> <flags> <n> <GTypeName>...
 *   sym <slot symbol> <Name>       quark <slot symbol> <hex domain>
 *
 * The dumper finds the get-type / error-quark functions with g_module_symbol() on the main
 * program.  They are the fixed slot functions foo_tNN_get_type / foo_qN_error_quark below (default
 * visibility).  vt/c/build.py links drivers without -rdynamic, so an executable's own symbols are
 * not in its dynamic symbol table; this file therefore provides g_module_symbol(): dlsym() on the
 * global scope first (works as soon as the driver is linked with -rdynamic), the slot table second.
 * Everything else of the dumper is the unmodified code of /repo.
 */
#include <stdio.h>
#include <stdlib.h>
#include <string.h>
#include <dlfcn.h>

#include <glib.h>
#include <glib-object.h>
#include <gmodule.h>
#include "girepository.h"

/* ---- GObject API that the shim headers do not declare (system libgobject exports it) ---- */
typedef struct _GTypeValueTable GTypeValueTable;
struct _GTypeInfo
{
  guint16 class_size;
  GBaseInitFunc base_init;
  GBaseFinalizeFunc base_finalize;
  GClassInitFunc class_init;
  GClassFinalizeFunc class_finalize;
  gconstpointer class_data;
  guint16 instance_size;
  guint16 n_preallocs;
  GInstanceInitFunc instance_init;
  const GTypeValueTable *value_table;
};
typedef struct { GTypeFundamentalFlags type_flags; } DrvFundamentalInfo;
typedef struct { void (*interface_init) (gpointer, gpointer); void (*interface_finalize) (gpointer, gpointer); gpointer interface_data; } DrvInterfaceInfo;
typedef struct { gint value; const gchar *value_name; const gchar *value_nick; } DrvEnumValue;
typedef struct { guint value; const gchar *value_name; const gchar *value_nick; } DrvFlagsValue;

GType g_type_register_static (GType parent_type, const gchar *type_name, const GTypeInfo *info, GTypeFlags flags);
GType g_type_register_fundamental (GType type_id, const gchar *type_name, const GTypeInfo *info, const DrvFundamentalInfo *finfo, GTypeFlags flags);
GType g_type_fundamental_next (void);
void g_type_add_interface_static (GType instance_type, GType interface_type, const DrvInterfaceInfo *info);
void g_type_interface_add_prerequisite (GType interface_type, GType prerequisite_type);
void g_object_class_install_property (GObjectClass *oclass, guint property_id, GParamSpec *pspec);
void g_object_interface_install_property (gpointer g_iface, GParamSpec *pspec);
guint g_signal_newv (const gchar *signal_name, GType itype, GSignalFlags signal_flags, GClosure *class_closure, gpointer accumulator, gpointer accu_data, gpointer c_marshaller, GType return_type, guint n_params, GType *param_types);
GType g_enum_register_static (const gchar *name, const DrvEnumValue *const_static_values);
GType g_flags_register_static (const gchar *name, const DrvFlagsValue *const_static_values);
gpointer g_enum_get_value_by_name (gpointer enum_class, const gchar *name);
gpointer g_flags_get_value_by_name (gpointer flags_class, const gchar *name);
GParamSpec *g_param_spec_char (const gchar *, const gchar *, const gchar *, gint8, gint8, gint8, GParamFlags);
GParamSpec *g_param_spec_uchar (const gchar *, const gchar *, const gchar *, guint8, guint8, guint8, GParamFlags);
GParamSpec *g_param_spec_boolean (const gchar *, const gchar *, const gchar *, gboolean, GParamFlags);
GParamSpec *g_param_spec_int (const gchar *, const gchar *, const gchar *, gint, gint, gint, GParamFlags);
GParamSpec *g_param_spec_uint (const gchar *, const gchar *, const gchar *, guint, guint, guint, GParamFlags);
GParamSpec *g_param_spec_long (const gchar *, const gchar *, const gchar *, glong, glong, glong, GParamFlags);
GParamSpec *g_param_spec_ulong (const gchar *, const gchar *, const gchar *, gulong, gulong, gulong, GParamFlags);
GParamSpec *g_param_spec_int64 (const gchar *, const gchar *, const gchar *, gint64, gint64, gint64, GParamFlags);
GParamSpec *g_param_spec_uint64 (const gchar *, const gchar *, const gchar *, guint64, guint64, guint64, GParamFlags);
GParamSpec *g_param_spec_float (const gchar *, const gchar *, const gchar *, gfloat, gfloat, gfloat, GParamFlags);
GParamSpec *g_param_spec_double (const gchar *, const gchar *, const gchar *, gdouble, gdouble, gdouble, GParamFlags);
GParamSpec *g_param_spec_string (const gchar *, const gchar *, const gchar *, const gchar *, GParamFlags);
GParamSpec *g_param_spec_enum (const gchar *, const gchar *, const gchar *, GType, gint, GParamFlags);
GParamSpec *g_param_spec_flags (const gchar *, const gchar *, const gchar *, GType, guint, GParamFlags);
GParamSpec *g_param_spec_param (const gchar *, const gchar *, const gchar *, GType, GParamFlags);
GParamSpec *g_param_spec_boxed (const gchar *, const gchar *, const gchar *, GType, GParamFlags);
GParamSpec *g_param_spec_pointer (const gchar *, const gchar *, const gchar *, GParamFlags);
GParamSpec *g_param_spec_object (const gchar *, const gchar *, const gchar *, GType, GParamFlags);
GParamSpec *g_param_spec_gtype (const gchar *, const gchar *, const gchar *, GType, GParamFlags);
GParamSpec *g_param_spec_variant (const gchar *, const gchar *, const gchar *, gconstpointer, gpointer, GParamFlags);
GType g_initially_unowned_get_type (void);
GType g_cancellable_get_type (void);
GType g_async_result_get_type (void);
GType g_strv_get_type (void);
GType g_hash_table_get_type (void);
GType g_byte_array_get_type (void);
GType g_array_get_type (void);
GType g_ptr_array_get_type (void);
GType g_value_get_type (void);
GType g_closure_get_type (void);
GType g_error_get_type (void);
GType g_bytes_get_type (void);

#define EXPORT __attribute__ ((visibility ("default")))

static void
die (const char *msg, const char *arg)
{
  fprintf (stderr, "drv_gdump: %s %s\n", msg, arg ? arg : "");
  exit (3);
}

static char *
unhex (const char *h)
{
  size_t n, i;
  char *out;
  if (strcmp (h, "-") == 0)
    return g_strdup ("");
  n = strlen (h) / 2;
  out = g_malloc (n + 1);
  for (i = 0; i < n; i++)
    {
      unsigned v;
      sscanf (h + 2 * i, "%2x", &v);
      out[i] = (char) v;
    }
  out[n] = 0;
  return out;
}

/* ---- slots: the exported get-type / error-quark functions ---- */
#define NSLOT 48
#define NQ 8
static GType slot_type[NSLOT];
static const char *slot_name[NSLOT];
static const char *quark_domain[NQ];
#define T(n) EXPORT GType foo_t##n##_get_type (void); GType foo_t##n##_get_type (void) { return slot_type[1##n - 100]; }
T(00) T(01) T(02) T(03) T(04) T(05) T(06) T(07) T(08) T(09) T(10) T(11) T(12) T(13) T(14) T(15)
T(16) T(17) T(18) T(19) T(20) T(21) T(22) T(23) T(24) T(25) T(26) T(27) T(28) T(29) T(30) T(31)
T(32) T(33) T(34) T(35) T(36) T(37) T(38) T(39) T(40) T(41) T(42) T(43) T(44) T(45) T(46) T(47)
#define Q(n) EXPORT GQuark foo_q##n##_error_quark (void); GQuark foo_q##n##_error_quark (void) { return quark_domain[n] ? g_quark_from_string (quark_domain[n]) : 0; }
Q(0) Q(1) Q(2) Q(3) Q(4) Q(5) Q(6) Q(7)
#define TS(n) { "foo_t" #n "_get_type", (gpointer) foo_t##n##_get_type },
#define QS(n) { "foo_q" #n "_error_quark", (gpointer) foo_q##n##_error_quark },
static const struct { const char *name; gpointer fn; } slot_syms[] = {
  TS(00) TS(01) TS(02) TS(03) TS(04) TS(05) TS(06) TS(07) TS(08) TS(09) TS(10) TS(11) TS(12) TS(13) TS(14) TS(15)
  TS(16) TS(17) TS(18) TS(19) TS(20) TS(21) TS(22) TS(23) TS(24) TS(25) TS(26) TS(27) TS(28) TS(29) TS(30) TS(31)
  TS(32) TS(33) TS(34) TS(35) TS(36) TS(37) TS(38) TS(39) TS(40) TS(41) TS(42) TS(43) TS(44) TS(45) TS(46) TS(47)
  QS(0) QS(1) QS(2) QS(3) QS(4) QS(5) QS(6) QS(7)
  { NULL, NULL }
};

static int via_dlsym, via_table;

/* see the header comment: replaces libgmodule's lookup only because the link has no -rdynamic */
gboolean
g_module_symbol (GModule *module, const gchar *symbol_name, gpointer *symbol)
{
  int i;
  gpointer p = dlsym (RTLD_DEFAULT, symbol_name);
  (void) module;
  if (p != NULL)
    {
      via_dlsym++;
      *symbol = p;
      return TRUE;
    }
  for (i = 0; slot_syms[i].name; i++)
    if (strcmp (slot_syms[i].name, symbol_name) == 0)
      {
        via_table++;
        *symbol = slot_syms[i].fn;
        return TRUE;
      }
  *symbol = NULL;
  return FALSE;
}

/* ---- registry ---- */
typedef struct { char *owner, *name, *gtype; long long flags; char dkind; char *dval; } Prop;
typedef struct { char *owner, *name, *ret; unsigned flags; int n; char *params[8]; } Sig;
typedef struct { char *kind, *name, *parent, *flags; GType gtype; } TypeDesc;
typedef struct { char *owner, *vname, *nick; long long value; } Val;
typedef struct { char *a, *b; } Pair;

#define MAXN 1024
static TypeDesc types[MAXN]; static int ntypes;
static Prop props[MAXN]; static int nprops;
static Sig sigs[MAXN]; static int nsigs;
static Val vals[MAXN]; static int nvals;
static Pair prereqs[MAXN]; static int nprereqs;
static Pair impls[MAXN]; static int nimpls;

static GType
lookup (const char *name)
{
  GType t = g_type_from_name (name);
  if (t == 0)
    die ("unknown GType", name);
  return t;
}

static void dummy_set (GObject *o, guint id, const GValue *v, GParamSpec *p) { (void) o; (void) id; (void) v; (void) p; }
static void dummy_get (GObject *o, guint id, GValue *v, GParamSpec *p) { (void) o; (void) id; (void) v; (void) p; }

static GParamSpec *
make_pspec (const Prop *p)
{
  GType vt = lookup (p->gtype);
  GParamFlags f = (GParamFlags) (gint) p->flags;
  const char *n = p->name, *d = p->dval;
  switch (G_TYPE_FUNDAMENTAL (vt))
    {
    case G_TYPE_CHAR: return g_param_spec_char (n, n, n, G_MININT8, G_MAXINT8, (gint8) strtoll (d, NULL, 10), f);
    case G_TYPE_UCHAR: return g_param_spec_uchar (n, n, n, 0, G_MAXUINT8, (guint8) strtoull (d, NULL, 10), f);
    case G_TYPE_BOOLEAN: return g_param_spec_boolean (n, n, n, strcmp (d, "TRUE") == 0, f);
    case G_TYPE_INT: return g_param_spec_int (n, n, n, G_MININT, G_MAXINT, (gint) strtoll (d, NULL, 10), f);
    case G_TYPE_UINT: return g_param_spec_uint (n, n, n, 0, G_MAXUINT, (guint) strtoull (d, NULL, 10), f);
    case G_TYPE_LONG: return g_param_spec_long (n, n, n, G_MINLONG, G_MAXLONG, (glong) strtoll (d, NULL, 10), f);
    case G_TYPE_ULONG: return g_param_spec_ulong (n, n, n, 0, G_MAXULONG, (gulong) strtoull (d, NULL, 10), f);
    case G_TYPE_INT64: return g_param_spec_int64 (n, n, n, G_MININT64, G_MAXINT64, (gint64) strtoll (d, NULL, 10), f);
    case G_TYPE_UINT64: return g_param_spec_uint64 (n, n, n, 0, G_MAXUINT64, (guint64) strtoull (d, NULL, 10), f);
    case G_TYPE_FLOAT: return g_param_spec_float (n, n, n, -1e30f, 1e30f, (gfloat) atof (d), f);
    case G_TYPE_DOUBLE: return g_param_spec_double (n, n, n, -1e300, 1e300, atof (d), f);
    case G_TYPE_STRING: return g_param_spec_string (n, n, n, p->dkind == 'z' ? NULL : d, f);
    case G_TYPE_ENUM:
      {
        gpointer klass = g_type_class_ref (vt);
        DrvEnumValue *ev = g_enum_get_value_by_name (klass, d);
        if (ev == NULL)
          die ("no such enum value", d);
        return g_param_spec_enum (n, n, n, vt, ev->value, f);
      }
    case G_TYPE_FLAGS:
      {
        gpointer klass = g_type_class_ref (vt);
        guint v = 0;
        char **parts = g_strsplit (d, " | ", -1);
        int i;
        for (i = 0; parts[i]; i++)
          if (*parts[i])
            {
              DrvFlagsValue *fv = g_flags_get_value_by_name (klass, parts[i]);
              if (fv != NULL)
                v |= fv->value;
              else if (g_ascii_isdigit (*parts[i]))
                v |= (guint) strtoul (parts[i], NULL, 10);
              else
                die ("no such flags value", parts[i]);
            }
        return g_param_spec_flags (n, n, n, vt, v, f);
      }
    case G_TYPE_POINTER:
      if (vt == G_TYPE_GTYPE)
        return g_param_spec_gtype (n, n, n, G_TYPE_NONE, f);
      return g_param_spec_pointer (n, n, n, f);
    case G_TYPE_BOXED: return g_param_spec_boxed (n, n, n, vt, f);
    case G_TYPE_OBJECT:
    case G_TYPE_INTERFACE: return g_param_spec_object (n, n, n, vt, f);
    case G_TYPE_PARAM: return g_param_spec_param (n, n, n, vt, f);
    case G_TYPE_VARIANT: return g_param_spec_variant (n, n, n, "*", NULL, f);
    default: die ("no GParamSpec kind for", p->gtype);
    }
  return NULL;
}

static void
class_init (gpointer klass, gpointer data)
{
  const char *owner = data;
  int i;
  guint id = 1;
  if (G_TYPE_FUNDAMENTAL (G_TYPE_FROM_CLASS (klass)) != G_TYPE_OBJECT)
    return;
  ((GObjectClass *) klass)->set_property = dummy_set;
  ((GObjectClass *) klass)->get_property = dummy_get;
  for (i = 0; i < nprops; i++)
    if (strcmp (props[i].owner, owner) == 0)
      g_object_class_install_property (klass, id++, make_pspec (&props[i]));
}

static void
iface_default_init (gpointer iface, gpointer data)
{
  const char *owner = data;
  int i;
  for (i = 0; i < nprops; i++)
    if (strcmp (props[i].owner, owner) == 0)
      g_object_interface_install_property (iface, make_pspec (&props[i]));
}

static gpointer box_copy (gpointer b) { return b; }
static void box_free (gpointer b) { (void) b; }

static void
register_type (TypeDesc *t)
{
  GTypeFlags fl = 0;
  if (strchr (t->flags, 'a')) fl |= G_TYPE_FLAG_ABSTRACT;
  if (strchr (t->flags, 'f')) fl |= G_TYPE_FLAG_FINAL;
  if (strcmp (t->kind, "object") == 0 || (strcmp (t->kind, "other") == 0 && strcmp (t->parent, "-") != 0))
    {
      GTypeInfo info;
      GTypeQuery q;
      GType parent = lookup (t->parent);
      g_type_query (parent, &q);
      if (q.type == 0)
        die ("parent is not derivable", t->parent);
      memset (&info, 0, sizeof info);
      info.class_size = q.class_size;
      info.instance_size = q.instance_size;
      info.class_init = class_init;
      info.class_data = t->name;
      t->gtype = g_type_register_static (parent, t->name, &info, fl);
    }
  else if (strcmp (t->kind, "other") == 0)
    {
      GTypeInfo info;
      DrvFundamentalInfo finfo;
      memset (&info, 0, sizeof info);
      finfo.type_flags = 0;
      if (strchr (t->flags, 'i'))
        {
          finfo.type_flags = G_TYPE_FLAG_CLASSED | G_TYPE_FLAG_INSTANTIATABLE | G_TYPE_FLAG_DERIVABLE | G_TYPE_FLAG_DEEP_DERIVABLE;
          info.class_size = sizeof (GTypeClass);
          info.instance_size = sizeof (GTypeInstance);
          info.class_init = class_init;
          info.class_data = t->name;
        }
      else
        finfo.type_flags = G_TYPE_FLAG_DERIVABLE;
      t->gtype = g_type_register_fundamental (g_type_fundamental_next (), t->name, &info, &finfo, fl);
    }
  else if (strcmp (t->kind, "interface") == 0)
    {
      GTypeInfo info;
      memset (&info, 0, sizeof info);
      info.class_size = sizeof (GTypeInterface);
      info.class_init = iface_default_init;
      info.class_data = t->name;
      t->gtype = g_type_register_static (G_TYPE_INTERFACE, t->name, &info, 0);
    }
  else if (strcmp (t->kind, "boxed") == 0)
    t->gtype = g_boxed_type_register_static (t->name, box_copy, box_free);
  else if (strcmp (t->kind, "pointer") == 0)
    t->gtype = g_pointer_type_register_static (t->name);
  else if (strcmp (t->kind, "enum") == 0 || strcmp (t->kind, "flags") == 0)
    {
      int i, n = 0;
      DrvEnumValue *ev = g_new0 (DrvEnumValue, nvals + 1);
      DrvFlagsValue *fv = g_new0 (DrvFlagsValue, nvals + 1);
      for (i = 0; i < nvals; i++)
        if (strcmp (vals[i].owner, t->name) == 0)
          {
            ev[n].value = (gint) vals[i].value; ev[n].value_name = vals[i].vname; ev[n].value_nick = vals[i].nick;
            fv[n].value = (guint) vals[i].value; fv[n].value_name = vals[i].vname; fv[n].value_nick = vals[i].nick;
            n++;
          }
      t->gtype = t->kind[0] == 'e' ? g_enum_register_static (t->name, ev) : g_flags_register_static (t->name, fv);
    }
  else
    die ("unknown kind", t->kind);
  if (t->gtype == 0)
    die ("registration failed for", t->name);
}

int
main (int argc, char **argv)
{
  FILE *f;
  char line[4096];
  GError *error = NULL;
  char *arg, *xml = NULL;
  int i;
  static const DrvInterfaceInfo no_iface_info = { NULL, NULL, NULL };

  if (argc != 4)
    die ("usage: drv_gdump REGISTRY FUNCTIONS OUT", NULL);
  /* types of libgobject / libgio the registries refer to by name */
  g_type_class_unref (g_type_class_ref (G_TYPE_OBJECT));
  g_initially_unowned_get_type (); g_cancellable_get_type (); g_async_result_get_type (); g_strv_get_type ();
  g_hash_table_get_type (); g_byte_array_get_type (); g_array_get_type (); g_ptr_array_get_type ();
  g_value_get_type (); g_closure_get_type (); g_error_get_type (); g_bytes_get_type (); g_gtype_get_type ();

  f = fopen (argv[1], "r");
  if (!f)
    die ("cannot open", argv[1]);
  while (fgets (line, sizeof line, f))
    {
      char **w;
      int n;
      g_strchomp (line);
      if (!*line)
        continue;
      w = g_strsplit (line, " ", -1);
      n = g_strv_length (w);
      if (strcmp (w[0], "type") == 0 && n == 5)
        { TypeDesc *t = &types[ntypes++]; t->kind = w[1]; t->name = w[2]; t->parent = w[3]; t->flags = w[4]; }
      else if (strcmp (w[0], "value") == 0 && n == 5)
        { Val *v = &vals[nvals++]; v->owner = w[1]; v->vname = w[2]; v->nick = w[3]; v->value = strtoll (w[4], NULL, 10); }
      else if (strcmp (w[0], "prereq") == 0 && n == 3)
        { prereqs[nprereqs].a = w[1]; prereqs[nprereqs++].b = w[2]; }
      else if (strcmp (w[0], "impl") == 0 && n == 3)
        { impls[nimpls].a = w[1]; impls[nimpls++].b = w[2]; }
      else if (strcmp (w[0], "prop") == 0 && n == 7)
        {
          Prop *p = &props[nprops++];
          p->owner = w[1]; p->name = w[2]; p->gtype = w[3]; p->flags = strtoll (w[4], NULL, 10);
          p->dkind = w[5][0]; p->dval = unhex (w[6]);
        }
      else if (strcmp (w[0], "signal") == 0 && n >= 6)
        {
          Sig *s = &sigs[nsigs++];
          s->owner = w[1]; s->name = w[2]; s->ret = w[3]; s->flags = (unsigned) strtoul (w[4], NULL, 10);
          s->n = atoi (w[5]);
          if (n != 6 + s->n || s->n > 8)
            die ("bad signal line", line);
          for (i = 0; i < s->n; i++)
            s->params[i] = w[6 + i];
        }
      else if (strcmp (w[0], "sym") == 0 && n == 3)
        {
          int slot = -1;
          if (sscanf (w[1], "foo_t%2d_get_type", &slot) != 1 || slot < 0 || slot >= NSLOT)
            die ("bad slot symbol", w[1]);
          slot_name[slot] = w[2];           /* resolved after registration */
        }
      else if (strcmp (w[0], "quark") == 0 && n == 3)
        {
          int slot = -1;
          if (sscanf (w[1], "foo_q%1d_error_quark", &slot) != 1 || slot < 0 || slot >= NQ)
            die ("bad quark slot symbol", w[1]);
          quark_domain[slot] = unhex (w[2]);
        }
      else
        die ("bad registry line", line);
      if (ntypes >= MAXN || nprops >= MAXN || nsigs >= MAXN || nvals >= MAXN || nprereqs >= MAXN || nimpls >= MAXN)
        die ("registry too large", NULL);
    }
  fclose (f);

  for (i = 0; i < ntypes; i++)
    register_type (&types[i]);
  for (i = 0; i < nprereqs; i++)
    g_type_interface_add_prerequisite (lookup (prereqs[i].a), lookup (prereqs[i].b));
  for (i = 0; i < nimpls; i++)
    g_type_add_interface_static (lookup (impls[i].a), lookup (impls[i].b), &no_iface_info);
  for (i = 0; i < nsigs; i++)
    {
      GType pt[8];
      int j;
      for (j = 0; j < sigs[i].n; j++)
        pt[j] = lookup (sigs[i].params[j]);
      if (g_signal_newv (sigs[i].name, lookup (sigs[i].owner), (GSignalFlags) sigs[i].flags, NULL, NULL, NULL, NULL,
                         lookup (sigs[i].ret), sigs[i].n, pt) == 0)
        die ("g_signal_newv failed for", sigs[i].name);
    }
  for (i = 0; i < NSLOT; i++)
    if (slot_name[i])
      slot_type[i] = lookup (slot_name[i]);

  arg = g_strdup_printf ("%s,%s", argv[2], argv[3]);
  if (!g_irepository_dump (arg, &error))
    {
      fprintf (stderr, "drv_gdump: g_irepository_dump failed: %s\n", error ? error->message : "?");
      return 4;
    }
  if (!g_file_get_contents (argv[3], &xml, NULL, NULL))
    die ("cannot read", argv[3]);
  fputs (xml, stdout);
  fprintf (stderr, "drv_gdump: symbols via dlsym=%d via slot table=%d\n", via_dlsym, via_table);
  return 0;
}
