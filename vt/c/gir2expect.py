"""GIR text -> expected typelib-level model (the MUST facts only), written from
docs/gir-1.2.rnc and girepository/gitypelib-internal.h.  The result has the shape used
by vt/girgen.py:match() so that C15 can compare it with the decoded typelib of the
same GIR.  Reads GIR with the independent reader vt/scan/girread.py."""
import os

from vt.girgen import BASIC
from vt.scan import girread

CALLABLE_TAGS = ('function', 'method', 'constructor')


class Ctx(object):
    def __init__(self, ns, aliases, known):
        self.ns = ns
        self.aliases = aliases      # 'Ns.Name' -> target type name (qualified or basic)
        self.known = known          # set of 'Ns.Name' of every non-alias definition visible
        self.unresolved = []


def collect(root, aliases, known, seen, search_dirs):
    """Gather alias tables and definitions of this GIR and (transitively) its includes."""
    ns = root.find('namespace')
    name = ns.get('name')
    if name in seen:
        return
    seen.add(name)
    for e in ns.kids:
        n = e.get('name')
        if n is None:
            continue
        if e.tag == 'alias':
            t = e.find('type')
            if t is not None and t.get('name'):
                tn = t.get('name')
                if '.' not in tn and tn not in BASIC and tn != 'none':
                    tn = '%s.%s' % (name, tn)
                aliases['%s.%s' % (name, n)] = tn
        else:
            known.add('%s.%s' % (name, n))
    for inc in root.findall('include'):
        fn = '%s-%s.gir' % (inc.get('name'), inc.get('version'))
        for d in search_dirs:
            p = os.path.join(d, fn)
            if os.path.exists(p):
                with open(p, 'rb') as f:
                    collect(girread.parse(f.read()), aliases, known, seen, search_dirs)
                break


def hidden(e):
    return e.get('introspectable') == '0' or e.get('shadowed-by') is not None


def flag(e, k):
    return int(e.get(k) == '1')


def type_expect(ctx, holder):
    """holder: element with a <type>/<array> child. -> expectation dict or None (UNSPECIFIED)"""
    t = holder.type_el()
    if t is None:
        return None
    return type_node(ctx, t)


def type_node(ctx, t):
    if t.tag == 'array':
        kind = {None: 'c', 'GLib.Array': 'array', 'GLib.PtrArray': 'ptr_array', 'GLib.ByteArray': 'byte_array'}.get(t.get('name'), 'c')
        e = {'tag': 'array', 'array_type': kind}
        if kind == 'c':
            ln, sz, zt = t.get('length'), t.get('fixed-size'), t.get('zero-terminated')
            e['has_length'] = int(ln is not None)
            if ln is not None:
                e['length'] = int(ln)
            if ln is None:
                e['has_size'] = int(sz is not None)
                if sz is not None:
                    e['size'] = int(sz)
            e['zero_terminated'] = int(zt == '1') if zt is not None else int(ln is None and sz is None)
        inner = t.type_el()
        if inner is not None:
            ie = type_node(ctx, inner)
            if ie is not None:
                e['elem'] = ie
        return e
    if t.tag != 'type':
        return None
    name = t.get('name')
    if name is None:
        return None
    for _ in range(8):
        q = name if '.' in name else '%s.%s' % (ctx.ns, name)
        if name not in BASIC and q in ctx.aliases:
            name = ctx.aliases[q]
        else:
            break
    if name in BASIC:
        return {'tag': BASIC[name][0]}
    if name in ('GLib.List', 'GLib.SList') or (ctx.ns == 'GLib' and name in ('List', 'SList')):
        e = {'tag': 'glist' if name.endswith('.List') or name == 'List' else 'gslist'}
        inner = t.type_el()
        if inner is not None:
            ie = type_node(ctx, inner)
            if ie is not None:
                e['params'] = [ie]
        return e
    if name == 'GLib.HashTable' or (ctx.ns == 'GLib' and name == 'HashTable'):
        e = {'tag': 'ghash'}
        kids = [k for k in t.kids if k.tag in ('type', 'array')]
        if len(kids) == 2:
            a, b = type_node(ctx, kids[0]), type_node(ctx, kids[1])
            if a is not None and b is not None:
                e['params'] = [a, b]
        return e
    if name == 'GLib.Error' or (ctx.ns == 'GLib' and name == 'Error'):
        return {'tag': 'error'}
    if name == 'GObject.Type' or (ctx.ns == 'GObject' and name == 'Type'):
        return None
    q = name if '.' in name else '%s.%s' % (ctx.ns, name)
    if q not in ctx.known:
        ctx.unresolved.append(q)
        return None
    ns, local = q.split('.', 1)
    return {'tag': 'interface', 'interface': local if ns == ctx.ns else q}


def transfer_bits(v):
    return int(v == 'full'), int(v == 'container')


def param_expect(ctx, p):
    d = p.get('direction') or 'in'
    out = d in ('out', 'inout')
    an = p.get('allow-none') == '1'
    modern = p.get('nullable') is not None or p.get('optional') is not None
    full, cont = transfer_bits(p.get('transfer-ownership'))
    e = {'name': p.get('name'), 'in': int(d in ('in', 'inout')), 'out': int(out),
         'caller_allocates': int(d == 'out' and p.get('caller-allocates') == '1'),
         # allow-none is the deprecated spelling: it only decides when the GIR states neither nullable nor optional
         'nullable': int(p.get('nullable') == '1' or (an and not out and not modern)),
         'optional': int(p.get('optional') == '1' or (an and out and not modern)),
         'transfer_ownership': full, 'transfer_container_ownership': cont, 'skip': flag(p, 'skip'),
         'scope': p.get('scope') or 'invalid',
         'closure': int(p.get('closure')) if p.get('closure') is not None else -1,
         'destroy': int(p.get('destroy')) if p.get('destroy') is not None else -1,
         '_attributes': attributes(p)}
    te = type_expect(ctx, p)
    if te is not None:
        e['type'] = te
    return e


def attributes(e):
    return sorted((a.get('name'), a.get('value')) for a in e.findall('attribute'))


def signature_expect(ctx, c):
    rv = c.find('return-value')
    inst, params = c.params()
    sig = {'args': [param_expect(ctx, p) for p in params], 'throws': flag(c, 'throws')}
    if rv is not None:
        full, cont = transfer_bits(rv.get('transfer-ownership'))
        sig.update({'may_return_null': int(rv.get('nullable') == '1'),
                    'caller_owns_return_value': full, 'caller_owns_return_container': cont,
                    'skip_return': flag(rv, 'skip'), '_attributes': attributes(rv)})
        te = type_expect(ctx, rv)
        if te is not None:
            sig['return_type'] = te
    if inst is not None:
        sig['instance_transfer_ownership'] = int(inst.get('transfer-ownership') == 'full')
    return sig


def function_expect(ctx, f):
    e = {'kind': 'function', 'name': f.get('shadows') or f.get('name'), 'symbol': f.get('c:identifier'),
         'deprecated': int(f.get('deprecated') is not None), 'throws': flag(f, 'throws'),
         'constructor': int(f.tag == 'constructor'), 'is_static': int(f.tag == 'function'),
         'signature': signature_expect(ctx, f), '_attributes': attributes(f)}
    if f.tag in ('method', 'constructor'):
        e['setter'] = int(f.get('glib:set-property') is not None)
        e['getter'] = int(f.get('glib:set-property') is None and f.get('glib:get-property') is not None)
    return e


def methods_expect(ctx, e):
    return [function_expect(ctx, k) for k in e.kids if k.tag in CALLABLE_TAGS and not hidden(k)]


def field_expect(ctx, f):
    e = {'name': f.get('name'), 'readable': int(f.get('readable') != '0'), 'writable': flag(f, 'writable'),
         '_attributes': attributes(f)}
    if f.get('introspectable') == '0':
        e['has_embedded_type'] = 0
        return e
    cb = f.find('callback')
    if cb is not None:
        e['has_embedded_type'] = 1
        e['callback'] = {'name': cb.get('name'), 'signature': signature_expect(ctx, cb)}
    else:
        e['has_embedded_type'] = 0
        te = type_expect(ctx, f)
        if te is not None:
            e['type'] = te
    return e


def fields_expect(ctx, e):
    """Only plain <field> children are comparable; if the compound also nests anonymous
    records/unions the field layout in the typelib is UNSPECIFIED here."""
    if any(k.tag in ('record', 'union') for k in e.kids):
        return None
    return [field_expect(ctx, k) for k in e.kids if k.tag == 'field']


def gtype(e, out):
    out['gtype_name'] = e.get('glib:type-name')
    out['gtype_init'] = e.get('glib:get-type')


def const_expect(ctx, c):
    e = {'kind': 'constant', 'name': c.get('name'), 'deprecated': int(c.get('deprecated') is not None),
         '_attributes': attributes(c)}
    te = type_expect(ctx, c)
    if te is not None:
        e['type'] = te
        tag, v = te['tag'], c.get('value')
        try:
            if tag in ('utf8', 'filename'):
                e['value'] = v
            elif tag == 'gboolean':
                e['value'] = 1 if v == 'true' else 0
            elif tag in ('gfloat', 'gdouble'):
                e['value'] = float(v)
            elif tag.startswith('gint') or tag.startswith('guint') or tag == 'gunichar':
                e['value'] = int(v)
        except (TypeError, ValueError):
            pass
    return e


def prop_expect(ctx, p):
    full, cont = transfer_bits(p.get('transfer-ownership') or 'none')
    e = {'name': p.get('name'), 'readable': int(p.get('readable') != '0'), 'writable': flag(p, 'writable'),
         'construct': flag(p, 'construct'), 'construct_only': flag(p, 'construct-only'),
         'transfer_ownership': full, 'transfer_container_ownership': cont,
         'deprecated': int(p.get('deprecated') is not None),
         '_setter_name': p.get('setter'), '_getter_name': p.get('getter'), '_attributes': attributes(p)}
    te = type_expect(ctx, p)
    if te is not None:
        e['type'] = te
    return e


def signal_expect(ctx, s):
    when = (s.get('when') or 'last').lower()
    return {'name': s.get('name'), 'deprecated': flag(s, 'deprecated'), 'run_first': int(when == 'first'),
            'run_last': int(when == 'last'), 'run_cleanup': int(when == 'cleanup'), 'no_recurse': flag(s, 'no-recurse'),
            'detailed': flag(s, 'detailed'), 'action': flag(s, 'action'), 'no_hooks': flag(s, 'no-hooks'),
            'signature': signature_expect(ctx, s), '_attributes': attributes(s)}


def vfunc_expect(ctx, v):
    e = {'name': v.get('name'), 'throws': flag(v, 'throws'), 'signature': signature_expect(ctx, v),
         '_invoker_name': v.get('invoker'), '_attributes': attributes(v)}
    if v.get('offset') is not None:
        e['struct_offset'] = int(v.get('offset'))
    return e


def local_ref(ctx, name):
    if name is None:
        return None
    if '.' in name:
        ns, local = name.split('.', 1)
        return local if ns == ctx.ns else name
    return name


def entry_expect(ctx, e):
    tag = e.tag
    if tag in ('function',):
        return function_expect(ctx, e)
    if tag == 'callback':
        return {'kind': 'callback', 'name': e.get('name'), 'deprecated': int(e.get('deprecated') is not None),
                'signature': signature_expect(ctx, e), '_attributes': attributes(e)}
    if tag == 'constant':
        return const_expect(ctx, e)
    if tag in ('enumeration', 'bitfield'):
        vals = []
        for m in e.findall('member'):
            x = {'name': m.get('name'), 'deprecated': int(m.get('deprecated') is not None)}
            try:
                v = int(m.get('value'))
                if -2 ** 31 <= v < 2 ** 32:
                    x['value'] = v - (1 << 32) if v >= (1 << 31) else v
                    if v >= (1 << 31):
                        x['unsigned_value'] = 1       # ValueBlob.value is a gint32: the flag is what keeps 2^31..2^32-1 positive
            except (TypeError, ValueError):
                pass
            vals.append(x)
        out = {'kind': 'flags' if tag == 'bitfield' else 'enum', 'name': e.get('name'),
               'deprecated': int(e.get('deprecated') is not None), 'error_domain': e.get('glib:error-domain'),
               'values': vals, 'methods': methods_expect(ctx, e), '_attributes': attributes(e)}
        gtype(e, out)
        return out
    if tag in ('record', 'union', 'glib:boxed'):
        out = {'kind': 'union' if tag == 'union' else 'boxed_or_struct', 'name': e.get('name') or e.get('glib:name'),
               'deprecated': int(e.get('deprecated') is not None), 'methods': methods_expect(ctx, e),
               'copy_func': e.get('copy-function'), 'free_func': e.get('free-function'), '_attributes': attributes(e)}
        gtype(e, out)
        fe = fields_expect(ctx, e)
        if fe is not None:
            out['fields'] = fe
        if tag == 'record':
            out['is_gtype_struct'] = int(e.get('glib:is-gtype-struct-for') is not None)
            out['foreign'] = flag(e, 'foreign')
        return out
    if tag in ('class', 'interface'):
        out = {'kind': 'object' if tag == 'class' else 'interface', 'name': e.get('name'),
               'deprecated': int(e.get('deprecated') is not None),
               'gtype_struct': local_ref(ctx, e.get('glib:type-struct')),
               'properties': [prop_expect(ctx, k) for k in e.findall('property') if not hidden(k)],
               'methods': methods_expect(ctx, e),
               'signals': [signal_expect(ctx, k) for k in e.findall('glib:signal') if not hidden(k)],
               'vfuncs': [vfunc_expect(ctx, k) for k in e.findall('virtual-method') if not hidden(k)],
               'constants': [const_expect(ctx, k) for k in e.findall('constant') if not hidden(k)],
               '_attributes': attributes(e)}
        gtype(e, out)
        if tag == 'class':
            out.update({'parent': local_ref(ctx, e.get('parent')), 'abstract': flag(e, 'abstract'),
                        'final_': flag(e, 'final'), 'fundamental': int(e.get('glib:fundamental') is not None),
                        'ref_func': e.get('glib:ref-func'), 'unref_func': e.get('glib:unref-func'),
                        'set_value_func': e.get('glib:set-value-func'), 'get_value_func': e.get('glib:get-value-func'),
                        'interfaces': [local_ref(ctx, i.get('name')) for i in e.findall('implements')]})
            fe = fields_expect(ctx, e)
            if fe is not None:
                out['fields'] = fe
        else:
            out['prerequisites'] = [local_ref(ctx, i.get('name')) for i in e.findall('prerequisite')]
        return out
    return None          # alias, function-macro, docsection, ...: no directory entry


def expect(xml_bytes, search_dirs):
    """-> (expected model, ctx).  expected['entries'] lists every introspectable element."""
    root = girread.parse(xml_bytes)
    nsel = root.find('namespace')
    aliases, known = {}, set()
    collect(root, aliases, known, set(), search_dirs)
    ctx = Ctx(nsel.get('name'), aliases, known)
    ents = []
    hidden_names = []
    for e in nsel.kids:
        if e.tag in ('alias', 'function-macro', 'docsection', 'function-inline', 'method-inline'):
            continue
        if hidden(e):
            if e.get('name'):
                hidden_names.append(e.get('name'))
            continue
        x = entry_expect(ctx, e)
        if x is not None:
            ents.append(x)
    sl = nsel.get('shared-library')
    model = {'namespace': nsel.get('name'), 'nsversion': nsel.get('version'),
             'dependencies': ['%s-%s' % (i.get('name'), i.get('version')) for i in root.findall('include')],
             'entries': ents, '_hidden': hidden_names}
    if sl:      # an empty shared-library attribute (header-only scan) may be stored as NULL or "": UNSPECIFIED
        model['shared_library'] = sl
    return model, ctx
