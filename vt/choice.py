"""E4 - choice-point ownership of hidden nondeterminism.

The only channel from PYTHONHASHSEED (or from object addresses, or from the CPython
set layout) to the scanner's output is the order in which `set` objects yield their
elements.  `ChoiceSet` is a `set` subclass that keeps its elements in insertion order
in a side dict and asks an `Explorer` - at EVERY point where the order of a set can be
observed (`__iter__`, `pop`) - which permutation of that base order to yield.

Binding the module-global name `set` of the pipeline modules to `ChoiceSet` (from
outside, see `install`) makes every set those modules create a choice point;
`scan_sources` proves on the source text that no set can be created in them in any
other way (set literal, set comprehension, frozenset, dict-view algebra, a rebinding
of the name).  `explore` then enumerates every execution with at most `max_dev`
non-default permutations (deviation bounding: default = insertion order).

Nothing in here imports giscanner; the explorer is generic.
"""
import ast as pyast
import itertools
import os
import sys


# --------------------------------------------------------------- explorer ---
class Explorer(object):
    """Holds the script (choice index -> permutation) of the current execution and
    records the trace of choice points the execution actually met."""

    def __init__(self):
        self.active = False
        self.script = {}
        self.trace = []        # [(n, 'file.py:function', line)] per observed iteration of a set with n >= 2
        self.small = 0         # iterations of sets with < 2 elements (no choice)
        self.created = 0       # ChoiceSet instances created while active
        self.applied = 0

    def begin(self, script=None):
        self.active = True
        self.script = dict(script or {})
        self.trace = []
        self.small = 0
        self.created = 0
        self.applied = 0

    def end(self):
        self.active = False
        return self.trace

    def choose(self, n, depth=2):
        """Called by ChoiceSet for a set of n >= 2 elements; returns a permutation
        (tuple of indices into the base order) or None for the default order."""
        k = len(self.trace)
        f = sys._getframe(depth)
        site = '%s:%s' % (os.path.basename(f.f_code.co_filename), f.f_code.co_name)
        self.trace.append((n, site, f.f_lineno))
        p = self.script.get(k)
        if p is None:
            return None
        if len(p) != n:
            raise ScriptMismatch('choice %d: script permutation %r does not fit a set of %d' % (k, p, n))
        self.applied += 1
        return p


class ScriptMismatch(Exception):
    pass


EXPLORER = Explorer()


# -------------------------------------------------------------- ChoiceSet ---
def _plain(it):
    """Elements of `it` in a deterministic order WITHOUT creating a choice point:
    base order for a ChoiceSet, native iteration otherwise.  Used only to build the
    base order of a *new* set; observing that order later is a choice point again, and
    the permutations offered there subsume whatever order was used here."""
    if isinstance(it, ChoiceSet):
        return list(it._d)
    return it


class ChoiceSet(set):
    """A set whose iteration order is chosen by EXPLORER.  Base order = insertion
    order.  The underlying C set is kept in sync so that len/in/==/<=/isinstance and
    every C fast path that ignores order keep working."""
    __slots__ = ('_d',)

    def __init__(self, iterable=()):
        set.__init__(self)
        self._d = {}
        if EXPLORER.active:
            EXPLORER.created += 1
        for x in _plain(iterable):
            set.add(self, x)
            self._d[x] = None

    # -- observation of order: the choice points -------------------------------
    def _ordered(self, depth):
        items = list(self._d)
        if len(items) != set.__len__(self):
            raise AssertionError('ChoiceSet side order out of sync (%d vs %d): a C-level mutator '
                                 'bypassed the overrides' % (len(items), set.__len__(self)))
        if EXPLORER.active:
            if len(items) >= 2:
                p = EXPLORER.choose(len(items), depth)
                if p is not None:
                    items = [items[i] for i in p]
            else:
                EXPLORER.small += 1
        return items

    def __iter__(self):
        return iter(self._ordered(3))

    def pop(self):
        if not self._d:
            raise KeyError('pop from an empty set')
        x = self._ordered(3)[0]
        set.discard(self, x)
        del self._d[x]
        return x

    def __repr__(self):
        return 'ChoiceSet(%r)' % (list(self._d),)

    def __reduce__(self):
        return (ChoiceSet, (list(self._d),))

    def __reduce_ex__(self, protocol):
        return self.__reduce__()

    def __copy__(self):
        return ChoiceSet(self)

    def __deepcopy__(self, memo):
        import copy
        return ChoiceSet([copy.deepcopy(x, memo) for x in self._d])

    # -- mutators ----------------------------------------------------------------
    def add(self, x):
        set.add(self, x)
        if x not in self._d:
            self._d[x] = None

    def discard(self, x):
        set.discard(self, x)
        self._d.pop(x, None)

    def remove(self, x):
        set.remove(self, x)
        del self._d[x]

    def clear(self):
        set.clear(self)
        self._d.clear()

    def update(self, *others):
        for o in others:
            for x in _plain(o):
                set.add(self, x)
                if x not in self._d:
                    self._d[x] = None

    def difference_update(self, *others):
        for o in others:
            for x in list(_plain(o)):
                self.discard(x)

    def intersection_update(self, *others):
        for o in others:
            keep = set(_plain(o))
            for x in list(self._d):
                if x not in keep:
                    self.discard(x)

    def symmetric_difference_update(self, other):
        other = list(dict.fromkeys(_plain(other)))
        for x in other:
            if x in self._d:
                self.discard(x)
            else:
                self.add(x)

    def __ior__(self, other):
        if not isinstance(other, (set, frozenset)):
            return NotImplemented
        self.update(other)
        return self

    def __isub__(self, other):
        if not isinstance(other, (set, frozenset)):
            return NotImplemented
        self.difference_update(other)
        return self

    def __iand__(self, other):
        if not isinstance(other, (set, frozenset)):
            return NotImplemented
        self.intersection_update(other)
        return self

    def __ixor__(self, other):
        if not isinstance(other, (set, frozenset)):
            return NotImplemented
        self.symmetric_difference_update(other)
        return self

    # -- operators and methods that would return a plain set ---------------------
    def copy(self):
        return ChoiceSet(self)

    def union(self, *others):
        r = ChoiceSet(self)
        r.update(*others)
        return r

    def difference(self, *others):
        r = ChoiceSet(self)
        r.difference_update(*others)
        return r

    def intersection(self, *others):
        r = ChoiceSet(self)
        r.intersection_update(*others)
        return r

    def symmetric_difference(self, other):
        r = ChoiceSet(self)
        r.symmetric_difference_update(other)
        return r

    def __or__(self, other):
        if not isinstance(other, (set, frozenset)):
            return NotImplemented
        return self.union(other)

    def __sub__(self, other):
        if not isinstance(other, (set, frozenset)):
            return NotImplemented
        return self.difference(other)

    def __and__(self, other):
        if not isinstance(other, (set, frozenset)):
            return NotImplemented
        return self.intersection(other)

    def __xor__(self, other):
        if not isinstance(other, (set, frozenset)):
            return NotImplemented
        return self.symmetric_difference(other)

    # reflected forms: Python tries the reflected method of the right operand FIRST when
    # its type is a proper subclass of the left operand's type, so `plain - choice` also
    # stays closed.
    def __ror__(self, other):
        if not isinstance(other, (set, frozenset)):
            return NotImplemented
        return ChoiceSet(other).union(self)

    def __rsub__(self, other):
        if not isinstance(other, (set, frozenset)):
            return NotImplemented
        return ChoiceSet(other).difference(self)

    def __rand__(self, other):
        if not isinstance(other, (set, frozenset)):
            return NotImplemented
        return ChoiceSet(other).intersection(self)

    def __rxor__(self, other):
        if not isinstance(other, (set, frozenset)):
            return NotImplemented
        return ChoiceSet(other).symmetric_difference(self)


def selftest():
    """Every way CPython can observe the order of a set goes through the explorer, and the
    closure operators stay ChoiceSet.  Returns the number of assertions made."""
    import copy
    import pickle
    n = [0]

    def ok(c, what):
        n[0] += 1
        if not c:
            raise AssertionError('ChoiceSet selftest: ' + what)

    ex = EXPLORER
    saved = (ex.active, ex.script, ex.trace, ex.small, ex.created, ex.applied)
    try:
        base = ['b', 'a', 'c']
        rev = (2, 1, 0)
        observers = [
            ('list', lambda s: list(s)), ('tuple', lambda s: list(tuple(s))),
            ('for', lambda s: [x for x in s]), ('sorted-key', lambda s: sorted(s, key=lambda x: 0)),
            ('join', lambda s: ','.join(s).split(',')), ('iter', lambda s: list(iter(s))),
            ('unpack', lambda s: list((lambda a, b, c: (a, b, c))(*s))),
            ('dict.fromkeys', lambda s: list(dict.fromkeys(s))),
            ('list.extend', lambda s: (lambda l: (l.extend(s), l)[1])([])),
            ('enumerate', lambda s: [x for _, x in enumerate(s)]),
            ('map', lambda s: list(map(str, s))), ('zip', lambda s: [x for x, in zip(s)]),
            ('min-key', lambda s: [min(s, key=lambda x: 0)]), ('next-iter', lambda s: [next(iter(s))]),
        ]
        for name, f in observers:
            ex.begin({})
            got = f(ChoiceSet(base))
            ok(len(ex.trace) == 1, '%s: not routed through the explorer' % name)
            ok(got == base[:len(got)], '%s: default order %r' % (name, got))
            ex.begin({0: rev})
            got = f(ChoiceSet(base))
            want = [base[i] for i in rev]
            ok(got == want[:len(got)], '%s: permuted order %r' % (name, got))
        ex.begin({0: rev})
        s = ChoiceSet(base)
        ok(s.pop() == 'c' and len(s) == 2 and 'c' not in s, 'pop is a choice point')
        ex.begin({})
        a, b = ChoiceSet(['x', 'y', 'z', 'w']), ChoiceSet(['y', 'q'])
        plain = {'y', 'k'}
        cases = [a - b, a | b, a & b, a ^ b, a.copy(), a.difference(b), a.union(b), a.intersection(b),
                 a.symmetric_difference(b), plain - a, plain | a, plain & a, plain ^ a, a - plain, a | plain,
                 copy.copy(a), copy.deepcopy(a), pickle.loads(pickle.dumps(a)), a.union(['t']), a - frozenset('x')]
        for c in cases:
            ok(type(c) is ChoiceSet, 'operator result is %s' % type(c).__name__)
            ok(list(c._d) == [x for x in c._d if set.__contains__(c, x)] and len(c._d) == set.__len__(c), 'sync')
        ok(list((a - b)._d) == ['x', 'z', 'w'], 'difference keeps base order')
        ok(list((a | b)._d) == ['x', 'y', 'z', 'w', 'q'], 'union appends')
        ok(set(plain - a) == {'k'} and set(a & plain) == {'y'}, 'values')
        c = ChoiceSet(base)
        c |= {'d'}
        c -= {'a'}
        c.add('b')
        c.update(['e'], ChoiceSet(['f']))
        c.discard('zz')
        c.remove('e')
        c ^= {'f', 'g'}
        c &= {'b', 'c', 'd', 'g', 'h'}
        ok(type(c) is ChoiceSet and list(c._d) == ['b', 'c', 'd', 'g'] and set.__len__(c) == 4, 'in-place ops %r' % c)
        ok(isinstance(c, set) and c == {'b', 'c', 'd', 'g'} and 'b' in c and len(c) == 4 and bool(c), 'set protocol')
        ok(not ChoiceSet() and ChoiceSet('a') <= c | {'a'}, 'empty / subset')
        ok(len(ex.trace) == 0, 'order-insensitive operations must not create choice points (%r)' % ex.trace)
    finally:
        ex.active, ex.script, ex.trace, ex.small, ex.created, ex.applied = saved
    return n[0]


# ----------------------------------------------------------- installation ---
_INSTALLED = {}


def install(modules):
    """Bind the global name `set` of each module to ChoiceSet (reversible)."""
    for m in modules:
        if m.__name__ in _INSTALLED:
            continue
        _INSTALLED[m.__name__] = (m, m.__dict__.get('set', _INSTALLED))
        m.__dict__['set'] = ChoiceSet


def uninstall():
    for name, (m, old) in list(_INSTALLED.items()):
        if old is _INSTALLED:
            m.__dict__.pop('set', None)
        else:
            m.__dict__['set'] = old
        del _INSTALLED[name]


def installed():
    return sorted(_INSTALLED)


# ------------------------------------------------------------ source scan ---
_VIEW_METHODS = ('keys', 'items')
_SETOPS = (pyast.Sub, pyast.BitAnd, pyast.BitOr, pyast.BitXor)


def scan_source(path, src=None):
    """Static proof obligations for one module.  Returns (problems, n_set_calls) where
    problems is a list of 'file:line: what'.  A module passes iff every set object it can
    create comes from a call of the global NAME `set`."""
    if src is None:
        with open(path, encoding='utf-8') as f:
            src = f.read()
    tree = pyast.parse(src, path)
    base = os.path.basename(path)
    problems = []
    calls = 0
    parents = {}
    for node in pyast.walk(tree):
        for ch in pyast.iter_child_nodes(node):
            parents[ch] = node

    def bad(node, what):
        problems.append('%s:%d: %s' % (base, getattr(node, 'lineno', 0), what))

    def is_view_call(n):
        return (isinstance(n, pyast.Call) and isinstance(n.func, pyast.Attribute)
                and n.func.attr in _VIEW_METHODS and not n.args)

    for node in pyast.walk(tree):
        if isinstance(node, pyast.Set):
            bad(node, 'set literal (creates a plain set the explorer does not own)')
        elif isinstance(node, pyast.SetComp):
            bad(node, 'set comprehension (creates a plain set the explorer does not own)')
        elif isinstance(node, pyast.Name) and node.id in ('set', 'frozenset'):
            if node.id == 'frozenset':
                bad(node, 'use of the name frozenset')
            elif not isinstance(node.ctx, pyast.Load):
                bad(node, 'the name set is (re)bound in the module')
            else:
                par = parents.get(node)
                if isinstance(par, pyast.Call) and par.func is node:
                    calls += 1
                # any other load of the global name (isinstance(x, set), defaultdict(set), ...)
                # also resolves to ChoiceSet once the module global is rebound
        elif isinstance(node, pyast.arg) and node.arg in ('set', 'frozenset'):
            bad(node, 'parameter named %s shadows the module global' % node.arg)
        elif isinstance(node, (pyast.Import, pyast.ImportFrom)):
            for a in node.names:
                if (a.asname or a.name) in ('set', 'frozenset') or a.name in ('Set', 'FrozenSet', 'AbstractSet'):
                    bad(node, 'import binds %s' % (a.asname or a.name))
        elif isinstance(node, (pyast.FunctionDef, pyast.ClassDef, pyast.AsyncFunctionDef)) and node.name == 'set':
            if isinstance(parents.get(node), pyast.Module):
                bad(node, 'module-level definition named set')
        elif isinstance(node, pyast.Attribute) and node.attr in ('set', 'frozenset') and \
                isinstance(node.value, pyast.Name) and node.value.id in ('builtins', '__builtins__', '__builtin__'):
            bad(node, 'builtins.%s bypasses the module global' % node.attr)
        elif isinstance(node, pyast.Global) and 'set' in node.names:
            bad(node, 'global set')
        elif isinstance(node, (pyast.BinOp, pyast.AugAssign)) and isinstance(node.op, _SETOPS):
            ops = [node.left, node.right] if isinstance(node, pyast.BinOp) else [node.value]
            if any(is_view_call(o) for o in ops):
                bad(node, 'set algebra on a dict view returns a plain set')
        elif isinstance(node, pyast.Call) and isinstance(node.func, pyast.Name) and node.func.id in (
                'eval', 'exec', 'globals', 'vars', '__import__'):
            if node.func.id in ('eval', 'exec'):
                bad(node, '%s() defeats the static scan' % node.func.id)
    return problems, calls


def inventory_source(path, src=None):
    """The other ways a run could depend on something that is not an input: calls of hash() / id()
    outside a __hash__ method, directory listings, the clock, the pid, random numbers.  Returns a
    list of 'file:line: what' (expected to be empty for the modules on the path to the GIR)."""
    if src is None:
        with open(path, encoding='utf-8') as f:
            src = f.read()
    tree = pyast.parse(src, path)
    base = os.path.basename(path)
    out = []

    def visit(node, in_hash):
        if isinstance(node, (pyast.FunctionDef, pyast.AsyncFunctionDef)):
            in_hash = node.name == '__hash__'
        if isinstance(node, pyast.Call):
            f = node.func
            if isinstance(f, pyast.Name) and f.id in ('hash', 'id') and not in_hash:
                out.append('%s:%d: call of %s()' % (base, node.lineno, f.id))
            elif isinstance(f, pyast.Attribute) and isinstance(f.value, pyast.Name):
                q = '%s.%s' % (f.value.id, f.attr)
                if q in ('os.listdir', 'os.scandir', 'os.walk', 'glob.glob', 'glob.iglob', 'time.time',
                         'time.time_ns', 'time.monotonic', 'time.perf_counter', 'os.getpid', 'os.urandom',
                         'os.times') or f.value.id in ('random', 'uuid', 'secrets'):
                    out.append('%s:%d: call of %s()' % (base, node.lineno, q))
        elif isinstance(node, (pyast.Import, pyast.ImportFrom)):
            mod = getattr(node, 'module', None)
            for a in node.names:
                if a.name.split('.')[0] in ('random', 'uuid', 'secrets') or mod in ('random', 'uuid', 'secrets'):
                    out.append('%s:%d: import of %s' % (base, node.lineno, mod or a.name))
        for ch in pyast.iter_child_nodes(node):
            visit(ch, in_hash)
    visit(tree, False)
    return out


# ------------------------------------------------------------ exploration ---
def deviations(n, full_upto=4):
    """Non-default permutations offered at a choice point of size n: all of them for
    n <= full_upto, otherwise every transposition plus the reversal and the two rotations."""
    ident = tuple(range(n))
    if n <= full_upto:
        return [p for p in itertools.permutations(range(n)) if p != ident]
    out = []
    for i in range(n):
        for j in range(i + 1, n):
            p = list(ident)
            p[i], p[j] = p[j], p[i]
            out.append(tuple(p))
    for p in (tuple(reversed(ident)), ident[1:] + ident[:1], ident[-1:] + ident[:-1]):
        if p not in out and p != ident:
            out.append(p)
    return out


def explore(execute, max_dev, ref_trace, first=None, full_upto=4):
    """Deviation-bounded enumeration.  `execute(script)` runs the system under the given
    script and returns (observation, trace).  `ref_trace` is the trace of the default
    execution (script {}), which the caller has already run.  Yields
    (script, observation, trace) for EVERY execution with 1..max_dev deviations; with
    `first` = k only the subtree whose first deviation is at choice index k (used to
    partition the work).  Children of an execution deviate at a strictly later choice
    point of that execution's OWN trace, so traces that change under a deviation are
    followed correctly."""
    if max_dev < 1:
        return
    stack = [({}, ref_trace, -1)]
    while stack:
        script, trace, last = stack.pop()
        ks = range(last + 1, len(trace))
        if not script and first is not None:
            ks = [first] if first < len(trace) else []
        children = []
        for k in ks:
            for p in deviations(trace[k][0], full_upto):
                s2 = dict(script)
                s2[k] = p
                obs, t2 = execute(s2)
                if [x[0] for x in t2[:k + 1]] != [x[0] for x in trace[:k + 1]]:
                    raise ScriptMismatch('execution is not a deterministic function of the script: prefix of '
                                         'trace changed before choice %d' % k)
                yield s2, obs, t2
                if len(s2) < max_dev:
                    children.append((s2, t2, k))
        stack.extend(reversed(children))


def count_bound(trace_len_sizes, max_dev, full_upto=4):
    """Number of executions explore() performs if no deviation changes the trace
    (reported next to the measured number)."""
    sizes = [len(deviations(n, full_upto)) for n in trace_len_sizes]
    total = 0

    def rec(i, left):
        t = 0
        for k in range(i, len(sizes)):
            t += sizes[k]
            if left > 1:
                t += sizes[k] * rec(k + 1, left - 1)
        return t
    if max_dev >= 1:
        total = rec(0, min(max_dev, len(sizes)))
    return total
