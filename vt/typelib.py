"""Independent typelib decoder, written from girepository/gitypelib-internal.h
(the published binary format), x86-64 little-endian, gcc bit-field layout
(first declared bit-field in the least significant bits of its storage unit).

decode(data) -> (model, problems).  `model` is a plain dict tree describing the
namespace; `problems` lists violations of the format invariants (header blob sizes,
size == len, offsets aligned and inside the file, directory entries in range,
attribute table sorted, NUL-terminated strings inside the file).
"""
import struct

MAGIC = b'GOBJ\nMETADATA\r\n\032'

# ---- struct specifications: (name, ctype, bits) ---------------------------------
SZ = {'u8': 1, 'i8': 1, 'u16': 2, 'u32': 4, 'i32': 4}


def S(*fields):
    return list(fields)


HEADER = S(('magic', 'c16', None), ('major_version', 'u8', None), ('minor_version', 'u8', None),
           ('reserved', 'u16', None), ('n_entries', 'u16', None), ('n_local_entries', 'u16', None),
           ('directory', 'u32', None), ('n_attributes', 'u32', None), ('attributes', 'u32', None),
           ('dependencies', 'u32', None), ('size', 'u32', None), ('namespace', 'u32', None),
           ('nsversion', 'u32', None), ('shared_library', 'u32', None), ('c_prefix', 'u32', None),
           ('entry_blob_size', 'u16', None), ('function_blob_size', 'u16', None),
           ('callback_blob_size', 'u16', None), ('signal_blob_size', 'u16', None),
           ('vfunc_blob_size', 'u16', None), ('arg_blob_size', 'u16', None),
           ('property_blob_size', 'u16', None), ('field_blob_size', 'u16', None),
           ('value_blob_size', 'u16', None), ('attribute_blob_size', 'u16', None),
           ('constant_blob_size', 'u16', None), ('error_domain_blob_size', 'u16', None),
           ('signature_blob_size', 'u16', None), ('enum_blob_size', 'u16', None),
           ('struct_blob_size', 'u16', None), ('object_blob_size', 'u16', None),
           ('interface_blob_size', 'u16', None), ('union_blob_size', 'u16', None),
           ('sections', 'u32', None), ('padding', 'c12', None))
SECTION = S(('id', 'u32', None), ('offset', 'u32', None))
DIRENTRY = S(('blob_type', 'u16', None), ('local', 'u16', 1), ('reserved', 'u16', 15),
             ('name', 'u32', None), ('offset', 'u32', None))
ARG = S(('name', 'u32', None), ('in', 'u32', 1), ('out', 'u32', 1), ('caller_allocates', 'u32', 1),
        ('nullable', 'u32', 1), ('optional', 'u32', 1), ('transfer_ownership', 'u32', 1),
        ('transfer_container_ownership', 'u32', 1), ('return_value', 'u32', 1), ('scope', 'u32', 3),
        ('skip', 'u32', 1), ('reserved', 'u32', 20), ('closure', 'i8', None), ('destroy', 'i8', None),
        ('padding', 'u16', None), ('arg_type', 'u32', None))
SIGNATURE = S(('return_type', 'u32', None), ('may_return_null', 'u16', 1),
              ('caller_owns_return_value', 'u16', 1), ('caller_owns_return_container', 'u16', 1),
              ('skip_return', 'u16', 1), ('instance_transfer_ownership', 'u16', 1), ('throws', 'u16', 1),
              ('reserved', 'u16', 10), ('n_arguments', 'u16', None))
FUNCTION = S(('blob_type', 'u16', None), ('deprecated', 'u16', 1), ('setter', 'u16', 1), ('getter', 'u16', 1),
             ('constructor', 'u16', 1), ('wraps_vfunc', 'u16', 1), ('throws', 'u16', 1), ('index', 'u16', 10),
             ('name', 'u32', None), ('symbol', 'u32', None), ('signature', 'u32', None),
             ('is_static', 'u16', 1), ('is_async', 'u16', 1), ('sync_or_async', 'u16', 10), ('reserved', 'u16', 4),
             ('finish', 'u16', 10), ('reserved2', 'u16', 6))
CALLBACK = S(('blob_type', 'u16', None), ('deprecated', 'u16', 1), ('reserved', 'u16', 15),
             ('name', 'u32', None), ('signature', 'u32', None))
VALUE = S(('deprecated', 'u32', 1), ('unsigned_value', 'u32', 1), ('reserved', 'u32', 30),
          ('name', 'u32', None), ('value', 'i32', None))
FIELD = S(('name', 'u32', None), ('readable', 'u8', 1), ('writable', 'u8', 1), ('has_embedded_type', 'u8', 1),
          ('reserved', 'u8', 5), ('bits', 'u8', None), ('struct_offset', 'u16', None),
          ('reserved2', 'u32', None), ('type', 'u32', None))
STRUCT = S(('blob_type', 'u16', None), ('deprecated', 'u16', 1), ('unregistered', 'u16', 1),
           ('is_gtype_struct', 'u16', 1), ('alignment', 'u16', 6), ('foreign', 'u16', 1), ('reserved', 'u16', 6),
           ('name', 'u32', None), ('gtype_name', 'u32', None), ('gtype_init', 'u32', None), ('size', 'u32', None),
           ('n_fields', 'u16', None), ('n_methods', 'u16', None), ('copy_func', 'u32', None),
           ('free_func', 'u32', None))
UNION = S(('blob_type', 'u16', None), ('deprecated', 'u16', 1), ('unregistered', 'u16', 1),
          ('discriminated', 'u16', 1), ('alignment', 'u16', 6), ('reserved', 'u16', 7),
          ('name', 'u32', None), ('gtype_name', 'u32', None), ('gtype_init', 'u32', None), ('size', 'u32', None),
          ('n_fields', 'u16', None), ('n_functions', 'u16', None), ('copy_func', 'u32', None),
          ('free_func', 'u32', None), ('discriminator_offset', 'i32', None), ('discriminator_type', 'u32', None))
ENUM = S(('blob_type', 'u16', None), ('deprecated', 'u16', 1), ('unregistered', 'u16', 1),
         ('storage_type', 'u16', 5), ('reserved', 'u16', 9), ('name', 'u32', None), ('gtype_name', 'u32', None),
         ('gtype_init', 'u32', None), ('n_values', 'u16', None), ('n_methods', 'u16', None),
         ('error_domain', 'u32', None))
PROPERTY = S(('name', 'u32', None), ('deprecated', 'u32', 1), ('readable', 'u32', 1), ('writable', 'u32', 1),
             ('construct', 'u32', 1), ('construct_only', 'u32', 1), ('transfer_ownership', 'u32', 1),
             ('transfer_container_ownership', 'u32', 1), ('setter', 'u32', 10), ('getter', 'u32', 10),
             ('reserved', 'u32', 5), ('reserved2', 'u32', None), ('type', 'u32', None))
SIGNAL = S(('deprecated', 'u16', 1), ('run_first', 'u16', 1), ('run_last', 'u16', 1), ('run_cleanup', 'u16', 1),
           ('no_recurse', 'u16', 1), ('detailed', 'u16', 1), ('action', 'u16', 1), ('no_hooks', 'u16', 1),
           ('has_class_closure', 'u16', 1), ('true_stops_emit', 'u16', 1), ('reserved', 'u16', 6),
           ('class_closure', 'u16', None), ('name', 'u32', None), ('reserved2', 'u32', None),
           ('signature', 'u32', None))
VFUNC = S(('name', 'u32', None), ('must_chain_up', 'u16', 1), ('must_be_implemented', 'u16', 1),
          ('must_not_be_implemented', 'u16', 1), ('class_closure', 'u16', 1), ('throws', 'u16', 1),
          ('is_async', 'u16', 1), ('sync_or_async', 'u16', 10), ('signal', 'u16', None),
          ('struct_offset', 'u16', None), ('invoker', 'u16', 10), ('reserved', 'u16', 6),
          ('finish', 'u16', 10), ('reserved2', 'u16', 6), ('reserved3', 'u16', 16), ('signature', 'u32', None))
OBJECT = S(('blob_type', 'u16', None), ('deprecated', 'u16', 1), ('abstract', 'u16', 1), ('fundamental', 'u16', 1),
           ('final_', 'u16', 1), ('reserved', 'u16', 12), ('name', 'u32', None), ('gtype_name', 'u32', None),
           ('gtype_init', 'u32', None), ('parent', 'u16', None), ('gtype_struct', 'u16', None),
           ('n_interfaces', 'u16', None), ('n_fields', 'u16', None), ('n_properties', 'u16', None),
           ('n_methods', 'u16', None), ('n_signals', 'u16', None), ('n_vfuncs', 'u16', None),
           ('n_constants', 'u16', None), ('n_field_callbacks', 'u16', None), ('ref_func', 'u32', None),
           ('unref_func', 'u32', None), ('set_value_func', 'u32', None), ('get_value_func', 'u32', None),
           ('reserved3', 'u32', None), ('reserved4', 'u32', None))
INTERFACE = S(('blob_type', 'u16', None), ('deprecated', 'u16', 1), ('reserved', 'u16', 15), ('name', 'u32', None),
              ('gtype_name', 'u32', None), ('gtype_init', 'u32', None), ('gtype_struct', 'u16', None),
              ('n_prerequisites', 'u16', None), ('n_properties', 'u16', None), ('n_methods', 'u16', None),
              ('n_signals', 'u16', None), ('n_vfuncs', 'u16', None), ('n_constants', 'u16', None),
              ('padding', 'u16', None), ('reserved2', 'u32', None), ('reserved3', 'u32', None))
CONSTANT = S(('blob_type', 'u16', None), ('deprecated', 'u16', 1), ('reserved', 'u16', 15), ('name', 'u32', None),
             ('type', 'u32', None), ('size', 'u32', None), ('offset', 'u32', None), ('reserved2', 'u32', None))
ATTRIBUTE = S(('offset', 'u32', None), ('name', 'u32', None), ('value', 'u32', None))


def layout(spec):
    """-> ([(name, byte_offset, ctype, bit_shift, bits)], total_size)"""
    out = []
    off = 0
    unit = None   # (ctype, start, used_bits)
    for name, ct, bits in spec:
        if ct[0] == 'c':
            n = int(ct[1:])
            unit = None
            out.append((name, off, ct, 0, None))
            off += n
            continue
        size = SZ[ct]
        if bits is None:
            unit = None
            off = (off + size - 1) // size * size
            out.append((name, off, ct, 0, None))
            off += size
        else:
            if unit is None or SZ[unit[0]] != size or unit[2] + bits > size * 8:
                off = (off + size - 1) // size * size
                unit = [ct, off, 0]
                off += size
            out.append((name, unit[1], ct, unit[2], bits))
            unit[2] += bits
    return out, off


_LAYOUTS = {}
FMT = {'u8': '<B', 'i8': '<b', 'u16': '<H', 'u32': '<I', 'i32': '<i'}


def sizeof(spec):
    k = id(spec)
    if k not in _LAYOUTS:
        _LAYOUTS[k] = layout(spec)
    return _LAYOUTS[k][1]


class BadTypelib(Exception):
    pass


def unpack(spec, data, off):
    k = id(spec)
    if k not in _LAYOUTS:
        _LAYOUTS[k] = layout(spec)
    lay, size = _LAYOUTS[k]
    if off < 0 or off + size > len(data):
        raise BadTypelib('blob at %d (+%d) outside file of %d bytes' % (off, size, len(data)))
    d = {}
    for name, o, ct, shift, bits in lay:
        if ct[0] == 'c':
            d[name] = data[off + o: off + o + int(ct[1:])]
            continue
        v = struct.unpack_from(FMT[ct], data, off + o)[0]
        if bits is not None:
            v = (v >> shift) & ((1 << bits) - 1)
        d[name] = v
    return d


EXPECTED_SIZES = {
    'entry_blob_size': DIRENTRY, 'function_blob_size': FUNCTION, 'callback_blob_size': CALLBACK,
    'signal_blob_size': SIGNAL, 'vfunc_blob_size': VFUNC, 'arg_blob_size': ARG,
    'property_blob_size': PROPERTY, 'field_blob_size': FIELD, 'value_blob_size': VALUE,
    'attribute_blob_size': ATTRIBUTE, 'constant_blob_size': CONSTANT, 'signature_blob_size': SIGNATURE,
    'enum_blob_size': ENUM, 'struct_blob_size': STRUCT, 'object_blob_size': OBJECT,
    'interface_blob_size': INTERFACE, 'union_blob_size': UNION,
}
# sizes documented in the header comments / g_typelib_check_sanity
DOCUMENTED = {'entry_blob_size': 12, 'function_blob_size': 20, 'callback_blob_size': 12, 'signal_blob_size': 16,
              'vfunc_blob_size': 20, 'arg_blob_size': 16, 'property_blob_size': 16, 'field_blob_size': 16,
              'value_blob_size': 12, 'attribute_blob_size': 12, 'constant_blob_size': 24,
              'error_domain_blob_size': 0, 'signature_blob_size': 8, 'enum_blob_size': 24,
              'struct_blob_size': 32, 'object_blob_size': 60, 'interface_blob_size': 40, 'union_blob_size': 40}

TAGS = ['void', 'gboolean', 'gint8', 'guint8', 'gint16', 'guint16', 'gint32', 'guint32', 'gint64', 'guint64',
        'gfloat', 'gdouble', 'GType', 'utf8', 'filename', 'array', 'interface', 'glist', 'gslist', 'ghash',
        'error', 'gunichar']
BLOB_KIND = {1: 'function', 2: 'callback', 3: 'struct', 4: 'boxed', 5: 'enum', 6: 'flags', 7: 'object',
             8: 'interface', 9: 'constant', 11: 'union'}
ARRAY_TYPES = ['c', 'array', 'ptr_array', 'byte_array']
SCOPES = ['invalid', 'call', 'async', 'notified', 'forever']


class Decoder(object):
    def __init__(self, data):
        self.data = bytes(data)
        self.problems = []
        self.touched_strings = set()

    def bad(self, msg):
        if len(self.problems) < 200:
            self.problems.append(msg)

    def string(self, off, what='string', allow_zero=True):
        if off == 0:
            if not allow_zero:
                self.bad('%s: offset 0' % what)
            return None
        if off >= len(self.data):
            self.bad('%s: string offset %d outside file' % (what, off))
            return None
        end = self.data.find(b'\0', off)
        if end < 0:
            self.bad('%s: string at %d not NUL-terminated inside file' % (what, off))
            return None
        try:
            return self.data[off:end].decode('utf-8')
        except UnicodeDecodeError:
            self.bad('%s: string at %d is not UTF-8' % (what, off))
            return self.data[off:end].decode('utf-8', 'replace')

    def aligned(self, off, what):
        if off % 4:
            self.bad('%s: offset %d not 4-byte aligned' % (what, off))
        if off >= len(self.data):
            self.bad('%s: offset %d outside file' % (what, off))

    # ---- types --------------------------------------------------------------
    def simple_type(self, word, what):
        """SimpleTypeBlob: reserved(8) reserved2(16) pointer(1) reserved3(2) tag(5); if the low 24 bits are
        zero it is inline, otherwise the whole word is an offset to a complex type blob."""
        if (word & 0xFFFFFF) == 0:
            pointer = (word >> 24) & 1
            tag = (word >> 27) & 31
            if tag >= len(TAGS):
                self.bad('%s: invalid inline type tag %d' % (what, tag))
                return {'tag': 'invalid%d' % tag, 'pointer': pointer}
            if TAGS[tag] in ('array', 'interface', 'glist', 'gslist', 'ghash', 'error'):
                self.bad('%s: non-basic tag %s stored inline' % (what, TAGS[tag]))
            return {'tag': TAGS[tag], 'pointer': pointer}
        return self.complex_type(word, what)

    def complex_type(self, off, what):
        self.aligned(off, what + ' type blob')
        if off + 4 > len(self.data):
            return {'tag': 'outside-file'}
        b0 = self.data[off]
        pointer = b0 & 1
        tag = (b0 >> 3) & 31
        name = TAGS[tag] if tag < len(TAGS) else 'invalid%d' % tag
        if name == 'interface':
            idx = struct.unpack_from('<H', self.data, off + 2)[0]
            return {'tag': 'interface', 'pointer': pointer, 'interface': self.entry_ref(idx, what)}
        if name == 'array':
            w = struct.unpack_from('<H', self.data, off)[0]
            dim = struct.unpack_from('<H', self.data, off + 2)[0]
            t = {'tag': 'array', 'pointer': pointer, 'zero_terminated': (w >> 8) & 1,
                 'has_length': (w >> 9) & 1, 'has_size': (w >> 10) & 1,
                 'array_type': ARRAY_TYPES[(w >> 11) & 3]}
            if t['has_length']:
                t['length'] = dim
            if t['has_size']:
                t['size'] = dim
            t['elem'] = self.simple_type(struct.unpack_from('<I', self.data, off + 4)[0], what + '/elem')
            return t
        if name in ('glist', 'gslist', 'ghash'):
            n = struct.unpack_from('<H', self.data, off + 2)[0]
            want = 2 if name == 'ghash' else 1
            if n != want:
                self.bad('%s: %s with n_types=%d' % (what, name, n))
            ps = []
            for i in range(min(n, 4)):
                ps.append(self.simple_type(struct.unpack_from('<I', self.data, off + 4 + 4 * i)[0],
                                           what + '/param%d' % i))
            return {'tag': name, 'pointer': pointer, 'params': ps}
        if name == 'error':
            n = struct.unpack_from('<H', self.data, off + 2)[0]
            if n != 0:
                self.bad('%s: error type with n_domains=%d' % (what, n))
            return {'tag': 'error', 'pointer': pointer}
        self.bad('%s: complex type blob at %d has basic/invalid tag %s' % (what, off, name))
        return {'tag': name, 'pointer': pointer}

    def entry_ref(self, idx, what):
        """1-based directory index -> 'Name' (local) or 'Namespace.Name' (non-local)"""
        if idx == 0:
            return None
        if idx > self.header['n_entries']:
            self.bad('%s: directory index %d out of range (n_entries=%d)' % (what, idx, self.header['n_entries']))
            return '#%d' % idx
        e = unpack(DIRENTRY, self.data, self.header['directory'] + (idx - 1) * sizeof(DIRENTRY))
        name = self.string(e['name'], what + ' entry name')
        if e['local']:
            return name
        return '%s.%s' % (self.string(e['offset'], what + ' entry namespace'), name)

    # ---- signatures ---------------------------------------------------------
    def signature(self, off, what):
        self.aligned(off, what + ' signature')
        s = unpack(SIGNATURE, self.data, off)
        out = {k: s[k] for k in ('may_return_null', 'caller_owns_return_value', 'caller_owns_return_container',
                                 'skip_return', 'instance_transfer_ownership', 'throws')}
        out['return_type'] = self.simple_type(s['return_type'], what + '/return')
        out['_offset'] = off      # attributes of the return value are keyed on the signature offset
        args = []
        p = off + sizeof(SIGNATURE)
        for i in range(s['n_arguments']):
            a = unpack(ARG, self.data, p)
            d = {k: a[k] for k in ('in', 'out', 'caller_allocates', 'nullable', 'optional', 'transfer_ownership',
                                   'transfer_container_ownership', 'return_value', 'skip', 'closure', 'destroy')}
            d['name'] = self.string(a['name'], what + '/arg%d name' % i)
            d['scope'] = SCOPES[a['scope']] if a['scope'] < len(SCOPES) else 'invalid%d' % a['scope']
            d['type'] = self.simple_type(a['arg_type'], what + '/arg%d' % i)
            d['_offset'] = p
            args.append(d)
            p += sizeof(ARG)
        out['args'] = args
        return out

    def function(self, off, what):
        f = unpack(FUNCTION, self.data, off)
        if f['blob_type'] != 1:
            self.bad('%s: function blob has blob_type %d' % (what, f['blob_type']))
        d = {k: f[k] for k in ('deprecated', 'setter', 'getter', 'constructor', 'wraps_vfunc', 'throws', 'index',
                               'is_static', 'is_async', 'sync_or_async', 'finish')}
        d['kind'] = 'function'
        d['name'] = self.string(f['name'], what + ' name', False)
        d['symbol'] = self.string(f['symbol'], what + ' symbol')
        d['signature'] = self.signature(f['signature'], what + '(%s)' % d['name'])
        d['_offset'] = off
        return d

    def callback(self, off, what):
        c = unpack(CALLBACK, self.data, off)
        d = {'kind': 'callback', 'deprecated': c['deprecated'], '_offset': off}
        d['name'] = self.string(c['name'], what + ' name', False)
        d['signature'] = self.signature(c['signature'], what + '(%s)' % d['name'])
        return d

    def fields(self, p, n, what):
        """n FieldBlobs starting at p, embedded CallbackBlobs interleaved. -> (list, next offset, n_callbacks)"""
        out = []
        ncb = 0
        for i in range(n):
            f = unpack(FIELD, self.data, p)
            d = {k: f[k] for k in ('readable', 'writable', 'has_embedded_type', 'bits', 'struct_offset')}
            d['name'] = self.string(f['name'], what + '/field%d name' % i, False)
            d['_offset'] = p
            p += sizeof(FIELD)
            if f['has_embedded_type']:
                d['callback'] = self.callback(p, what + '/field %s' % d['name'])
                p += sizeof(CALLBACK)
                ncb += 1
            else:
                d['type'] = self.simple_type(f['type'], what + '/field %s' % d['name'])
            out.append(d)
        return out, p, ncb

    def functions(self, p, n, what):
        out = []
        for i in range(n):
            out.append(self.function(p, what + '/method%d' % i))
            p += sizeof(FUNCTION)
        return out, p

    def properties(self, p, n, what):
        out = []
        for i in range(n):
            b = unpack(PROPERTY, self.data, p)
            d = {k: b[k] for k in ('deprecated', 'readable', 'writable', 'construct', 'construct_only',
                                   'transfer_ownership', 'transfer_container_ownership', 'setter', 'getter')}
            d['name'] = self.string(b['name'], what + '/property%d name' % i, False)
            d['type'] = self.simple_type(b['type'], what + '/property %s' % d['name'])
            d['_offset'] = p
            out.append(d)
            p += sizeof(PROPERTY)
        return out, p

    def signals(self, p, n, what):
        out = []
        for i in range(n):
            b = unpack(SIGNAL, self.data, p)
            d = {k: b[k] for k in ('deprecated', 'run_first', 'run_last', 'run_cleanup', 'no_recurse', 'detailed',
                                   'action', 'no_hooks', 'has_class_closure', 'true_stops_emit', 'class_closure')}
            d['name'] = self.string(b['name'], what + '/signal%d name' % i, False)
            d['signature'] = self.signature(b['signature'], what + '/signal %s' % d['name'])
            d['_offset'] = p
            out.append(d)
            p += sizeof(SIGNAL)
        return out, p

    def vfuncs(self, p, n, what):
        out = []
        for i in range(n):
            b = unpack(VFUNC, self.data, p)
            d = {k: b[k] for k in ('must_chain_up', 'must_be_implemented', 'must_not_be_implemented',
                                   'class_closure', 'throws', 'is_async', 'sync_or_async', 'signal',
                                   'struct_offset', 'invoker', 'finish')}
            d['name'] = self.string(b['name'], what + '/vfunc%d name' % i, False)
            d['signature'] = self.signature(b['signature'], what + '/vfunc %s' % d['name'])
            d['_offset'] = p
            out.append(d)
            p += sizeof(VFUNC)
        return out, p

    def constants(self, p, n, what):
        out = []
        for i in range(n):
            out.append(self.constant(p, what + '/constant%d' % i))
            p += sizeof(CONSTANT)
        return out, p

    def constant(self, off, what):
        c = unpack(CONSTANT, self.data, off)
        d = {'kind': 'constant', 'deprecated': c['deprecated'], '_offset': off, 'size': c['size']}
        d['name'] = self.string(c['name'], what + ' name', False)
        d['type'] = t = self.simple_type(c['type'], what + ' %s' % d['name'])
        vo, vs = c['offset'], c['size']
        if vo + vs > len(self.data):
            self.bad('%s: constant value [%d,+%d) outside file' % (what, vo, vs))
            d['value'] = None
            return d
        raw = self.data[vo:vo + vs]
        tag = t.get('tag')
        fmt = {'gboolean': '<i', 'gint8': '<b', 'guint8': '<B', 'gint16': '<h', 'guint16': '<H', 'gint32': '<i',
               'guint32': '<I', 'gint64': '<q', 'guint64': '<Q', 'gfloat': '<f', 'gdouble': '<d',
               'gunichar': '<I'}.get(tag)
        if t.get('pointer') and tag not in ('utf8', 'filename'):
            fmt = None
        if tag in ('utf8', 'filename'):
            if not raw.endswith(b'\0'):
                self.bad('%s: string constant not NUL-terminated' % what)
            d['value'] = raw.rstrip(b'\0').decode('utf-8', 'replace')
        elif fmt and struct.calcsize(fmt) == vs:
            d['value'] = struct.unpack(fmt, raw)[0]
        else:
            d['value'] = raw.hex()
        return d

    def registered(self, b, d, what):
        d['gtype_name'] = self.string(b['gtype_name'], what + ' gtype_name')
        d['gtype_init'] = self.string(b['gtype_init'], what + ' gtype_init')
        d['unregistered'] = b.get('unregistered')

    def struct(self, off, what):
        b = unpack(STRUCT, self.data, off)
        d = {k: b[k] for k in ('deprecated', 'is_gtype_struct', 'alignment', 'foreign', 'size')}
        d['kind'] = 'struct' if b['blob_type'] == 3 else 'boxed'
        d['_offset'] = off
        d['name'] = self.string(b['name'], what + ' name', False)
        self.registered(b, d, what)
        d['copy_func'] = self.string(b['copy_func'], what + ' copy_func')
        d['free_func'] = self.string(b['free_func'], what + ' free_func')
        p = off + sizeof(STRUCT)
        d['fields'], p, _ = self.fields(p, b['n_fields'], what + ' %s' % d['name'])
        d['methods'], p = self.functions(p, b['n_methods'], what + ' %s' % d['name'])
        return d

    def union(self, off, what):
        b = unpack(UNION, self.data, off)
        d = {k: b[k] for k in ('deprecated', 'discriminated', 'alignment', 'size', 'discriminator_offset')}
        d['kind'] = 'union'
        d['_offset'] = off
        d['name'] = self.string(b['name'], what + ' name', False)
        self.registered(b, d, what)
        d['copy_func'] = self.string(b['copy_func'], what + ' copy_func')
        d['free_func'] = self.string(b['free_func'], what + ' free_func')
        p = off + sizeof(UNION)
        d['fields'], p, _ = self.fields(p, b['n_fields'], what + ' %s' % d['name'])
        d['methods'], p = self.functions(p, b['n_functions'], what + ' %s' % d['name'])
        if b['discriminated']:
            d['discriminator_type'] = self.simple_type(b['discriminator_type'], what + ' discriminator')
            d['discriminators'], p = self.constants(p, b['n_fields'], what + ' discriminators')
        return d

    def enum(self, off, what):
        b = unpack(ENUM, self.data, off)
        d = {'kind': 'enum' if b['blob_type'] == 5 else 'flags', 'deprecated': b['deprecated'], '_offset': off}
        st = b['storage_type']
        d['storage_type'] = TAGS[st] if st < len(TAGS) else 'invalid%d' % st
        d['name'] = self.string(b['name'], what + ' name', False)
        self.registered(b, d, what)
        d['error_domain'] = self.string(b['error_domain'], what + ' error_domain')
        p = off + sizeof(ENUM)
        vals = []
        for i in range(b['n_values']):
            v = unpack(VALUE, self.data, p)
            vals.append({'name': self.string(v['name'], what + '/value%d name' % i, False), 'value': v['value'],
                         'unsigned_value': v['unsigned_value'], 'deprecated': v['deprecated'], '_offset': p})
            p += sizeof(VALUE)
        d['values'] = vals
        d['methods'], p = self.functions(p, b['n_methods'], what + ' %s' % d['name'])
        return d

    def object(self, off, what):
        b = unpack(OBJECT, self.data, off)
        d = {k: b[k] for k in ('deprecated', 'abstract', 'fundamental', 'final_', 'n_field_callbacks')}
        d['kind'] = 'object'
        d['_offset'] = off
        d['name'] = self.string(b['name'], what + ' name', False)
        what = what + ' %s' % d['name']
        self.registered(b, d, what)
        d['parent'] = self.entry_ref(b['parent'], what + ' parent')
        d['gtype_struct'] = self.entry_ref(b['gtype_struct'], what + ' gtype_struct')
        for k in ('ref_func', 'unref_func', 'set_value_func', 'get_value_func'):
            d[k] = self.string(b[k], what + ' ' + k)
        p = off + sizeof(OBJECT)
        ifs = []
        for i in range(b['n_interfaces']):
            ifs.append(self.entry_ref(struct.unpack_from('<H', self.data, p)[0], what + ' interface%d' % i))
            p += 2
        p += 2 * (b['n_interfaces'] % 2)
        d['interfaces'] = ifs
        d['fields'], p, ncb = self.fields(p, b['n_fields'], what)
        if ncb != b['n_field_callbacks']:
            self.bad('%s: n_field_callbacks=%d but %d fields have embedded callbacks' % (what, b['n_field_callbacks'], ncb))
        d['properties'], p = self.properties(p, b['n_properties'], what)
        d['methods'], p = self.functions(p, b['n_methods'], what)
        d['signals'], p = self.signals(p, b['n_signals'], what)
        d['vfuncs'], p = self.vfuncs(p, b['n_vfuncs'], what)
        d['constants'], p = self.constants(p, b['n_constants'], what)
        return d

    def interface(self, off, what):
        b = unpack(INTERFACE, self.data, off)
        d = {'kind': 'interface', 'deprecated': b['deprecated'], '_offset': off}
        d['name'] = self.string(b['name'], what + ' name', False)
        what = what + ' %s' % d['name']
        self.registered(b, d, what)
        d['gtype_struct'] = self.entry_ref(b['gtype_struct'], what + ' gtype_struct')
        p = off + sizeof(INTERFACE)
        pre = []
        for i in range(b['n_prerequisites']):
            pre.append(self.entry_ref(struct.unpack_from('<H', self.data, p)[0], what + ' prerequisite%d' % i))
            p += 2
        p += 2 * (b['n_prerequisites'] % 2)
        d['prerequisites'] = pre
        d['properties'], p = self.properties(p, b['n_properties'], what)
        d['methods'], p = self.functions(p, b['n_methods'], what)
        d['signals'], p = self.signals(p, b['n_signals'], what)
        d['vfuncs'], p = self.vfuncs(p, b['n_vfuncs'], what)
        d['constants'], p = self.constants(p, b['n_constants'], what)
        return d

    # ---- top level ------------------------------------------------------------
    def decode(self):
        data = self.data
        if len(data) < sizeof(HEADER):
            raise BadTypelib('file shorter than header')
        h = self.header = unpack(HEADER, data, 0)
        if h['magic'] != MAGIC:
            raise BadTypelib('bad magic')
        if sizeof(HEADER) != 112:
            raise BadTypelib('decoder header layout wrong')
        m = {'major_version': h['major_version'], 'minor_version': h['minor_version']}
        if h['size'] != len(data):
            self.bad('header.size=%d but file length is %d' % (h['size'], len(data)))
        for k, spec in EXPECTED_SIZES.items():
            if h[k] != sizeof(spec) or h[k] != DOCUMENTED[k]:
                self.bad('header.%s=%d, format says %d' % (k, h[k], DOCUMENTED[k]))
        if h['error_domain_blob_size'] not in (0, 16):   # legacy field (ErrorDomainBlob was removed); unspecified
            self.bad('header.error_domain_blob_size=%d, format says 0' % h['error_domain_blob_size'])
        m['namespace'] = self.string(h['namespace'], 'namespace', False)
        m['nsversion'] = self.string(h['nsversion'], 'nsversion')
        m['shared_library'] = self.string(h['shared_library'], 'shared_library')
        m['c_prefix'] = self.string(h['c_prefix'], 'c_prefix')
        deps = self.string(h['dependencies'], 'dependencies')
        m['dependencies'] = deps.split('|') if deps else []
        m['n_entries'], m['n_local_entries'] = h['n_entries'], h['n_local_entries']
        if h['n_local_entries'] > h['n_entries']:
            self.bad('n_local_entries > n_entries')
        self.aligned(h['directory'], 'directory')
        entries = []
        for i in range(h['n_entries']):
            eo = h['directory'] + i * sizeof(DIRENTRY)
            e = unpack(DIRENTRY, data, eo)
            what = 'entry%d' % (i + 1)
            name = self.string(e['name'], what + ' name', False)
            if not e['local']:
                if i < h['n_local_entries']:
                    self.bad('%s: non-local entry among the first n_local_entries' % what)
                entries.append({'kind': 'xref', 'name': name, 'namespace': self.string(e['offset'], what + ' namespace'),
                                'local': 0, 'blob_type': e['blob_type']})
                continue
            if i >= h['n_local_entries']:
                self.bad('%s: local entry after n_local_entries' % what)
            self.aligned(e['offset'], what)
            bt = e['blob_type']
            kind = BLOB_KIND.get(bt)
            if kind is None:
                self.bad('%s: invalid blob type %d' % (what, bt))
                entries.append({'kind': 'invalid', 'name': name, 'local': 1})
                continue
            real_bt = struct.unpack_from('<H', data, e['offset'])[0] if e['offset'] + 2 <= len(data) else None
            if real_bt != bt:
                self.bad('%s: directory blob_type %d but blob says %r' % (what, bt, real_bt))
            fn = {'function': self.function, 'callback': self.callback, 'struct': self.struct, 'boxed': self.struct,
                  'enum': self.enum, 'flags': self.enum, 'object': self.object, 'interface': self.interface,
                  'constant': self.constant, 'union': self.union}[kind]
            try:
                d = fn(e['offset'], what)
            except (BadTypelib, struct.error) as ex:
                self.bad('%s: %s' % (what, ex))
                d = {'kind': kind, 'name': name}
            d['local'] = 1
            if d.get('name') != name:
                self.bad('%s: directory name %r differs from blob name %r' % (what, name, d.get('name')))
            entries.append(d)
        m['entries'] = entries
        # attributes
        attrs = []
        self.aligned(h['attributes'], 'attributes') if h['n_attributes'] else None
        last = -1
        for i in range(h['n_attributes']):
            a = unpack(ATTRIBUTE, data, h['attributes'] + i * sizeof(ATTRIBUTE))
            if a['offset'] < last:
                self.bad('attribute table not sorted by offset at index %d' % i)
            last = a['offset']
            attrs.append({'offset': a['offset'], 'name': self.string(a['name'], 'attribute name', False),
                          'value': self.string(a['value'], 'attribute value', False)})
        m['attributes'] = attrs
        # sections
        secs = []
        if h['sections']:
            self.aligned(h['sections'], 'sections')
            p = h['sections']
            for i in range(16):
                s = unpack(SECTION, data, p)
                if s['id'] == 0:
                    break
                secs.append((s['id'], s['offset']))
                self.aligned(s['offset'], 'section %d' % s['id'])
                p += sizeof(SECTION)
        m['sections'] = secs
        return m


def decode(data):
    d = Decoder(data)
    try:
        m = d.decode()
    except (BadTypelib, struct.error) as e:
        return None, ['undecodable: %s' % e]
    return m, d.problems


def attributes_of(model, offset):
    return [(a['name'], a['value']) for a in model['attributes'] if a['offset'] == offset]


def strip_offsets(x):
    """Drop '_offset' bookkeeping keys (for model comparison / byte-independent equality)."""
    if isinstance(x, dict):
        return {k: strip_offsets(v) for k, v in x.items() if k != '_offset'}
    if isinstance(x, list):
        return [strip_offsets(v) for v in x]
    return x
