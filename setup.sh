#!/bin/sh
# Offline setup: nothing to install. C checks build /repo's C sources on demand into .build/.
cd "$(dirname "$0")" || exit 1
mkdir -p .build evidence replays
/venv/bin/python -c 'import sys; sys.path.insert(0, "."); import vt.core' || exit 1
exit 0
