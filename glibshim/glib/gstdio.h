/* Minimal stand-in for <glib/gstdio.h>. See ../glib.h. */
#ifndef __VERIF_GSTDIO_SHIM_H__
#define __VERIF_GSTDIO_SHIM_H__
#include <glib.h>
#include <sys/stat.h>
FILE *g_fopen (const gchar *filename, const gchar *mode);
int g_open (const gchar *filename, int flags, int mode);
int g_rename (const gchar *oldfilename, const gchar *newfilename);
int g_unlink (const gchar *filename);
int g_remove (const gchar *filename);
int g_mkdir (const gchar *filename, int mode);
#endif
