/* Minimal stand-in for <glib/gprintf.h>: declarations live in ../glib.h. */
#include <glib.h>
