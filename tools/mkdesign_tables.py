#!/usr/bin/env python3
"""Regenerates the generated part of DESIGN.md §8 (between the BEGIN/END GENERATED markers) from
known_findings.json and seeded/*/meta.json."""
import glob, json, os, re
ROOT = os.path.dirname(os.path.dirname(os.path.abspath(__file__)))
kf = json.load(open(os.path.join(ROOT, 'known_findings.json')))
out = []
out.append('### 8.1b What each registered check covered in its last committed quick run\n')
out.append('(from `evidence/*.json`; thorough tiers multiply these by 5-100x, see the evidence `bounds`/`rule` fields)\n')
out.append('| property | evaluations | states | transitions | traces validated against the implementation | distinct outcomes | exhaustive | known findings hit | wall s |\n|---|---|---|---|---|---|---|---|---|')
for f in sorted(glob.glob(os.path.join(ROOT, 'evidence', 'C*.json'))):
    try:
        e = json.load(open(f))
    except Exception:
        continue
    c = e['coverage']
    out.append('| %s | %s | %s | %s | %s | %s | %s | %s | %s |' % (e['property_id'], c.get('evaluations'), c.get('states'), c.get('transitions'),
               c.get('traces_validated_against_impl'), c.get('distinct_outcomes'), c.get('exhaustive'),
               len(c.get('known_findings_hit', [])), e.get('wall_s')))
out.append('')
out.append('### 8.2 Defects repaired by `fix:` commits in /repo (%d)\n' % len(kf['fixed']))
out.append('| property | commit | what failed |\n|---|---|---|')
for f in sorted(kf['fixed']):
    m = re.match(r'fixed: property=(C\d+) (\w+) (.*)', f)
    out.append('| %s | `%s` | %s |' % (m.group(1), m.group(2), m.group(3).replace('|', '\\|')))
out.append('')
out.append('### 8.3 Known findings: genuine defects recorded, not repaired (%d keys)\n' % len(kf['findings']))
out.append('Each is identified by the exact violation key of the check (so any other violation of the same property is still '
           'reported) and printed as a `KNOWN-FINDING:` line.\n')
byp = {}
for f in kf['findings']:
    byp.setdefault(f['property'], []).append(f)
for p in sorted(byp):
    out.append('**%s** (%d)\n' % (p, len(byp[p])))
    for f in byp[p]:
        out.append('* `%s` — %s' % (f['key'].replace('`', "'"), f['what'].replace('\n', ' ')))
    out.append('')
out.append('### 8.4 Seeded property-breaking changes (independent sub-agents) and which checks catch them\n')
out.append('Each change was produced by a fresh sub-agent that saw only the property text and a scratch worktree; it was kept '
           'only after `tools/seedverify.sh` confirmed: the demonstration passes on the unchanged tree and fails on the changed '
           'tree, the 267 baseline tests still pass, and then the registered check was run against the changed tree.\n')
out.append('| seeded change | property | summary | needs | quick check result |\n|---|---|---|---|---|')
for d in sorted(glob.glob(os.path.join(ROOT, 'seeded', '*'))):
    try:
        m = json.load(open(os.path.join(d, 'meta.json')))
    except Exception:
        continue
    checks = m.get('checks', {})
    res = '; '.join('%s: %s' % (k, v) for k, v in sorted(checks.items()))
    summ = (m.get('summary') or '').replace('\n', ' ').replace('|', '\\|')
    needs = (m.get('needs') or '').replace('\n', ' ').replace('|', '\\|')
    out.append('| `seeded/%s` | %s | %s | %s | %s |' % (os.path.basename(d), m.get('property', ''), summ[:300], needs[:200], res))
out.append('')
text = '\n'.join(out)
p = os.path.join(ROOT, 'DESIGN.md')
s = open(p).read()
B, E = '<!-- BEGIN GENERATED -->', '<!-- END GENERATED -->'
if B not in s:
    s += '\n' + B + '\n' + E + '\n'
a, b = s.index(B), s.index(E)
s = s[:a] + B + '\n' + text + '\n' + s[b:]
open(p, 'w').write(s)
print('DESIGN.md tables regenerated: %d fixed, %d findings' % (len(kf['fixed']), len(kf['findings'])))
