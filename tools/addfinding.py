#!/usr/bin/env python3
"""tools/addfinding.py PROPERTY KEY WHAT   - append a known finding
   tools/addfinding.py --fixed "fixed: property=... <commit> <what>" """
import json, sys, os
p = os.path.join(os.path.dirname(os.path.dirname(os.path.abspath(__file__))), 'known_findings.json')
d = json.load(open(p))
if sys.argv[1] == '--fixed':
    d['fixed'].append(sys.argv[2])
else:
    prop, key, what = sys.argv[1:4]
    if not any(f['property'] == prop and f['key'] == key for f in d['findings']):
        d['findings'].append({'property': prop, 'key': key, 'what': what})
json.dump(d, open(p, 'w'), indent=1)
open(p, 'a').write('\n')
