#!/bin/sh
# tools/seedcheck.sh <patch.diff> <CHECK-ID>... : apply the patch in a scratch worktree of /repo and run the given checks
# (quick tier unless TIER is set) against it; prints DETECTED/MISSED per check. The worktree is removed afterwards.
patch=$1; shift
wt=/tmp/seedchk-$$
git -C /repo worktree add --detach "$wt" HEAD -q || exit 2
if ! git -C "$wt" apply "$patch"; then echo "PATCH-DOES-NOT-APPLY $patch"; git -C /repo worktree remove --force "$wt"; exit 2; fi
cd /verif
for id in "$@"; do
  out=$(VERIF_REPO=$wt VERIF_EVIDENCE_DIR=/tmp/seedchk-ev-$$ timeout 3000 ./check "$id" --tier "${TIER:-quick}" 2>&1)
  rc=$?
  n=$(echo "$out" | grep -c '^VIOLATION')
  if [ $rc -eq 1 ] && [ "$n" -gt 0 ]; then echo "DETECTED $id ($n violation lines) :: $(echo "$out" | grep '^  #' | head -2 | cut -c1-220 | tr '\n' ' ')";
  elif [ $rc -eq 0 ]; then echo "MISSED $id"; else echo "BROKEN $id rc=$rc :: $(echo "$out" | tail -3 | cut -c1-300 | tr '\n' ' ')"; fi
done
git -C /repo worktree remove --force "$wt"
rm -rf /tmp/seedchk-ev-$$
