#!/bin/sh
# usage: build.sh <repo-worktree> <outdir>   -> <outdir>/g-ir-compiler, g-ir-generate, libint.a libgirepo.a libcmph.a, giversion.h
# Builds the C sources of a gobject-introspection tree against hand-written GLib shim headers (no GLib dev headers here)
# and the system's GLib 2.74 runtime libraries.  Link your own test program with:
#   gcc $CFLAGS prog.c $OUT/libint.a $OUT/libgirepo.a $OUT/libint.a $OUT/libcmph.a $SYSLIBS -lffi -lm -ldl
set -e
R=$(cd "$1" && pwd); O=$2; K=$(cd "$(dirname "$0")" && pwd)
mkdir -p "$O/obj"; O=$(cd "$O" && pwd)
sed -e 's/@GI_MAJOR_VERSION@/1/' -e 's/@GI_MINOR_VERSION@/86/' -e 's/@GI_MICRO_VERSION@/1/' "$R/girepository/giversion.h.in" > "$O/giversion.h"
CFLAGS="-std=gnu99 -O1 -g -DHAVE_CONFIG_H -DG_IREPOSITORY_COMPILATION -DGI_COMPILATION -I$K/glibshim -I$O -I$R/girepository -I$R -I$R/girepository/cmph -I/usr/include/x86_64-linux-gnu -Wno-deprecated-declarations"
L=/usr/lib/x86_64-linux-gnu
SYSLIBS="$L/libgio-2.0.so.0 $L/libgobject-2.0.so.0 $L/libgmodule-2.0.so.0 $L/libglib-2.0.so.0"
INT="girmodule girnode giroffsets girparser girwriter gthash"
REPO="gdump giarginfo gibaseinfo gicallableinfo giconstantinfo gienuminfo gifieldinfo gifunctioninfo ginvoke giinterfaceinfo giobjectinfo gipropertyinfo giregisteredtypeinfo girepository girffi gisignalinfo gistructinfo gitypeinfo gitypelib giunioninfo giversion givfuncinfo"
CMPH="bdz bdz_ph bmz8 bmz brz buffer_entry buffer_manager chd chd_ph chm cmph cmph_structs compressed_rank compressed_seq fch_buckets fch graph hash jenkins_hash miller_rabin select vqueue vstack"
for s in $INT $REPO; do echo "gcc $CFLAGS -c $R/girepository/$s.c -o $O/obj/$s.o"; done > "$O/cmds"
for s in $CMPH; do echo "gcc $CFLAGS -c $R/girepository/cmph/$s.c -o $O/obj/cmph_$s.o"; done >> "$O/cmds"
echo "gcc $CFLAGS -c $R/tools/compiler.c -o $O/obj/tool_compiler.o" >> "$O/cmds"
echo "gcc $CFLAGS -c $R/tools/generate.c -o $O/obj/tool_generate.o" >> "$O/cmds"
xargs -P8 -I{} sh -c '{}' < "$O/cmds"
ar rcs "$O/libint.a" $(for s in $INT; do echo "$O/obj/$s.o"; done)
ar rcs "$O/libgirepo.a" $(for s in $REPO; do echo "$O/obj/$s.o"; done)
ar rcs "$O/libcmph.a" $(for s in $CMPH; do echo "$O/obj/cmph_$s.o"; done)
LIBS="$O/libint.a $O/libgirepo.a $O/libint.a $O/libcmph.a $SYSLIBS -lffi -lm -ldl"
gcc "$O/obj/tool_compiler.o" $LIBS -o "$O/g-ir-compiler"
gcc "$O/obj/tool_generate.o" $LIBS -o "$O/g-ir-generate"
echo "CFLAGS=\"$CFLAGS\"" > "$O/env.sh"; echo "LIBS=\"$LIBS\"" >> "$O/env.sh"
echo built "$O"
