#!/bin/sh
# tools/seedverify.sh <seed-dir> <name> <CHECK-ID>...
# Confirms a seeded change (patch.diff + demo.py|demo.sh + meta.json in <seed-dir>): demo passes on the clean tree, fails on the
# changed tree, the 267 baseline tests still pass; then runs the given checks against the changed tree. Keeps it under
# /verif/seeded/<name>/ with the results appended to meta.json.
d=$1; name=$2; shift 2
wt=/tmp/seedver-$$
git -C /repo worktree add --detach "$wt" HEAD -q || exit 2
demo=$d/demo.py; run="/venv/bin/python"; [ -f "$demo" ] || { demo=$d/demo.sh; run="sh"; }
( cd "$d" && $run "$demo" "$wt" >/tmp/seedver-$$.clean 2>&1 ); rc_clean=$?
git -C "$wt" apply "$d/patch.diff" || { echo "PATCH-DOES-NOT-APPLY"; git -C /repo worktree remove --force "$wt"; exit 2; }
( cd "$d" && $run "$demo" "$wt" >/tmp/seedver-$$.chg 2>&1 ); rc_chg=$?
tests=$(cd "$wt" && /venv/bin/python -m pytest -q -p no:cacheprovider --timeout=900 --continue-on-collection-errors 2>&1 | tail -1)
echo "demo clean rc=$rc_clean changed rc=$rc_chg ; tests: $tests"
res=""
cd /verif
for id in "$@"; do
  out=$(VERIF_REPO=$wt VERIF_EVIDENCE_DIR=/tmp/seedver-ev-$$ timeout 3000 ./check "$id" --tier "${TIER:-quick}" 2>&1); rc=$?
  n=$(echo "$out" | grep -c '^VIOLATION')
  if [ $rc -eq 1 ] && [ "$n" -gt 0 ]; then r="DETECTED"; elif [ $rc -eq 0 ]; then r="MISSED"; else r="BROKEN(rc=$rc)"; fi
  echo "$r $id :: $(echo "$out" | grep '^  #' | head -2 | cut -c1-200 | tr '\n' ' ')"
  res="$res $id:$r"
done
git -C /repo worktree remove --force "$wt"; rm -rf /tmp/seedver-ev-$$
if [ $rc_clean -eq 0 ] && [ $rc_chg -ne 0 ]; then
  mkdir -p "/verif/seeded/$name"; cp "$d"/patch.diff "$d"/meta.json "$demo" "/verif/seeded/$name/" 2>/dev/null
  for f in "$d"/*; do case "$f" in *.txt|*.gir|*.h|*.c|*.xml|*.json|*.py|*.sh) cp "$f" "/verif/seeded/$name/" ;; esac; done
  /venv/bin/python - "$name" "$rc_clean" "$rc_chg" "$tests" "$res" "${TIER:-quick}" <<'PY'
import json,sys
name,rc0,rc1,tests,res,tier=sys.argv[1:7]
p='/verif/seeded/%s/meta.json'%name
try: m=json.load(open(p))
except Exception: m={}
m['confirmed']={'demo_on_unchanged_tree_exit':int(rc0),'demo_on_changed_tree_exit':int(rc1),'baseline_tests_on_changed_tree':tests,
                'how':'tools/seedverify.sh: scratch worktree of /repo HEAD, demo before/after git apply, full pytest baseline, then ./check with VERIF_REPO'}
m.setdefault('checks',{})
for item in res.split():
    k,v=item.split(':',1); m['checks']['%s@%s'%(k,tier)]=v
json.dump(m,open(p,'w'),indent=1)
PY
  echo "KEPT seeded/$name"
else echo "NOT-CONFIRMED (demo clean=$rc_clean changed=$rc_chg)"; fi
rm -f /tmp/seedver-$$.clean /tmp/seedver-$$.chg
