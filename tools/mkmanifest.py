#!/usr/bin/env python3
"""Regenerates MANIFEST.json from the table below (kept valid at all times)."""
import json, os
ROOT = os.path.dirname(os.path.dirname(os.path.abspath(__file__)))
META = {}
def reg(pid, text, note, technique, design_ref, category='model_checking'):
    META[pid] = dict(text=text, note=note, technique=technique, design_ref=design_ref, category=category)

reg('C20',
    'Explicit-state search over XML writer operation sequences: every (tag-stack state, operation) edge with the full '
    'string/attribute menu and every operation history up to a length bound is executed on the real XMLWriter and the '
    'expat-parsed result compared with a reference tree. Exhaustive within the stated alphabet and bounds.',
    'expat is the independent parser; alphabet of ~24 strings; comment text with "--" is outside XML and excluded.',
    'explicit-state BFS over operation sequences with replay of every edge on the implementation', 'DESIGN.md §4 C20')

NOT_BUILT = 'check not built yet in this tree (planned, see DESIGN.md §4)'
def main():
    props = [json.loads(l) for l in open(os.path.join(ROOT, 'properties.jsonl'))]
    checks, na = [], []
    for p in props:
        pid = p['id']
        have = os.path.exists(os.path.join(ROOT, 'vt', 'checks', pid.lower() + '.py'))
        if pid in META and have:
            m = META[pid]
            checks.append({
                'property_id': pid,
                'quick_cmd': './check %s --tier quick' % pid,
                'thorough_cmd': './check %s --tier thorough' % pid,
                'evidence_file': 'evidence/%s.json' % pid,
                'replay_cmd_template': './check %s --replay {path}' % pid,
                'level_claimed': {'category': m['category'], 'text': m['text'], 'design_ref': m['design_ref']},
                'level_note': m['note'],
                'technique': m['technique'],
            })
        else:
            na.append({'property_id': pid, 'reason': NA.get(pid, NOT_BUILT)})
    man = {
        'version': 1,
        'setup_cmd': './setup.sh',
        'hooks': {
            'guard': 'GI_VERIF',
            'enable': 'no source hooks: the harness installs its stub C-scanner module, virtual file system and choice-point '
                      'set class from outside via sys.modules / module globals; ./check exports GI_VERIF=1',
            'baseline_off_cmd': 'cd /repo && /venv/bin/python -m pytest -ra -q -p no:cacheprovider --timeout=900 --continue-on-collection-errors',
            'source_commits': [],
            'add_only': True,
        },
        'engines': [
            {'name': 'vt', 'path': 'vt/', 'serves_properties': [c['property_id'] for c in checks],
             'kind_free_text': 'hand-written bounded-exhaustive explorers (generation-tree search, explicit-state BFS with replay on '
                               'the implementation, stateless schedule exploration over a virtual file system, choice-point sets)'}],
        'checks': checks,
        'not_applicable': na,
        'notes': 'See DESIGN.md. Exit codes: 0 held, 1 VIOLATION, 2 harness/build broken.',
    }
    with open(os.path.join(ROOT, 'MANIFEST.json'), 'w') as f:
        json.dump(man, f, indent=1)
        f.write('\n')
NA = {}
if __name__ == '__main__':
    main()
